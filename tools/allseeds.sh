#!/bin/bash
# tools/allseeds.sh [IDs...] : run quick checks under VERIF_SEED 0..3, print only non-clean lines
cd "$(dirname "$0")/.."
IDS="$@"; [ -z "$IDS" ] && IDS=$(python3 -c "import json;print(' '.join(c['property_id'] for c in json.load(open('MANIFEST.json'))['checks']))")
for s in 0 1 2 3; do for c in $IDS; do
  out=$(VERIF_SEED=$s LBV_EVIDENCE_DIR=/tmp/lbv_allseeds ./check $c 2>&1); rc=$?
  line=$(echo "$out" | tail -1)
  if [ $rc -ne 0 ] || echo "$out" | grep -q '^VIOLATION'; then echo "SEED $s $c rc=$rc :: $line"; echo "$out" | grep -A1 '^VIOLATION' | head -4 | cut -c1-300; fi
done; done; rm -rf /tmp/lbv_allseeds; echo "allseeds done"
