#!/bin/bash
# tools/mutrun.sh <patch.diff> <ID> [<ID> ...]
# Copies /repo to a scratch dir outside /repo and /verif, applies the patch, runs the
# repository's own suite there (must stay green) and the quick checks with LBV_REPO
# pointing at the copy (must print VIOLATION); removes the copy.
set -u
PATCH=$(readlink -f "$1"); shift
D=$(mktemp -d /tmp/lbv_mut_XXXXXX)
cp -r /repo/. "$D"/ && rm -rf "$D/.git"
cd "$D" && patch -p1 -s < "$PATCH" || { echo "PATCH FAILED"; rm -rf "$D"; exit 2; }
T=$(cd "$D" && PYTHONPATH="$D" /venv/bin/python -m pytest -q -p no:cacheprovider -x 2>&1 | tail -1)
echo "tests: $T"
for id in "$@"; do
  out=$(cd /verif && LBV_REPO="$D" LBV_EVIDENCE_DIR="$D/_ev" ./check "$id" --tier "${TIER:-quick}" 2>&1)
  echo "$id: rc=$? $(echo "$out" | grep -c '^VIOLATION') VIOLATION lines; $(echo "$out" | grep -E 'violation\(s\)' | head -1)"
  echo "$out" | grep -A1 '^VIOLATION' | head -4
done
rm -rf "$D"
