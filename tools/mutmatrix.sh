#!/bin/bash
# tools/mutmatrix.sh [targets file] : every listed mutant against its target checks
cd "$(dirname "$0")/.."
TF=${1:-mutants/targets.txt}
OUT=mutants/RESULTS.txt; : > $OUT
while read -r diff ids; do
  [ -z "$diff" ] && continue
  echo "=== $diff" | tee -a $OUT
  tools/mutrun.sh mutants/$diff $ids 2>&1 | grep -E "^tests:|^C[0-9]+: rc=" | cut -c1-260 | tee -a $OUT
done < $TF
