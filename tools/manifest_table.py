PENDING = "check under construction in this round: not claimed until it runs clean on the unchanged tree (see DESIGN.md section 9)"
NOT_APPLICABLE = {}
_E = "bounded-exhaustive exploration of the real code"
CHECKS = {
 "C01": dict(engine="E1 structural enumerator", level="exploration", ref="DESIGN.md 4/C01",
   technique="exhaustive enumeration of structural input patterns (box/start/minimiser letters x family x Hessian x memory), every case executed on the real solver",
   text="Every combination of per-variable box/start/minimiser letters for n<=2 (quick) and n<=3 plus tilings to n=12 (thorough), for 3 convex families, 3 Hessians, several memory sizes, is run through the real minimize_lbfgsb and the KKT residual is recomputed by the harness. Exhaustive within the stated alphabets; silent about values outside them.",
   note="alphabets of lbv/families.py stand for the continuum; NumPy/SciPy trusted; threshold = max(100*gtol, 30*sqrt(eps*|f|*L))"),
 "C08": dict(engine="E6 component enumerator + interception", level="exploration", ref="DESIGN.md 4/C08",
   technique="exhaustive enumeration of structural inputs (bound letter x position x gradient sign/zero/tie x memory contents) to the real get_cauchy_point, compared with a dense reference on every input",
   text="All n<=3 combinations of box letter, position, gradient letter (including zeros and tied breakpoints) and 6 memory contents, tilings to n=10, and every input the real solver hands to the routine on the C01 n=2 runs, are fed to the real get_cauchy_point; result compared with a dense piecewise-quadratic search. Exhaustive within the alphabet.",
   note="dense BFGS recursion trusted as the model; 1e-9 relative; inputs whose gradient has components below 1e-10*|g|_inf are accepted when exact for the gradient with those components zeroed (backward error)"),
 "C09": dict(engine="E6 component enumerator + interception", level="exploration", ref="DESIGN.md 4/C09",
   technique="exhaustive enumeration of structural inputs to the real subspace_minimization (fed the reference Cauchy point), compared with a dense box-truncated Newton reference on every input",
   text="Same enumeration as C08; the real subspace_minimization receives the reference Cauchy point so that verdicts are independent of C08; every free/active partition for n<=3 occurs and is counted.",
   note="dense BFGS recursion trusted; 1e-8 relative"),
 "C10": dict(engine="E5 explicit-state BFS with reference model", level="model_checking", ref="DESIGN.md 4/C10",
   technique="explicit-state BFS over abstract memory states with every edge executed on the real update routine by history replay, plus exhaustive enumeration of all candidate sequences to a depth bound",
   text="The correction-pair memory has a small abstract state (letters of the stored pairs). All states x 7 candidate letters (4 accepted, 3 rejected kinds) are explored for maxcor 1..3; every edge is executed on a fresh real object, the implementation's read-back state must equal the model's, and the full oracle (compact == dense BFGS, SPD, secant, bound on pairs, curvature of stored pairs, rejected => bitwise untouched, oldest evicted) is evaluated after every step. All sequences to depth maxcor+2 / 5 validate the canonicalisation; 40-step sequences cover maxcor 1..10, n<=12; updates intercepted in real runs cover the solver's own call pattern.",
   note="dense textbook BFGS recursion is the specification; 1e-8 relative; conditioning above 1e4 excluded from the intercepted runs (both sides of the comparison lose digits there)"),
 "C11": dict(engine="E6 component grid + E2 scripted environment", level="exploration", ref="DESIGN.md 4/C11",
   technique="exhaustive enumeration of line-search calls (objective x box x start x direction x iteration x cap x tolerances) and of ALL environment answer scripts up to a length bound, each executed on the real line_search",
   text="28 800 real-objective calls per variant (complete product incl. caps 1..20) and all 25^d scripted answer sequences (d<=3 quick, d<=4 thorough) drive the More-Thuente iteration through every branch of its first trials; the harness checks box membership of every evaluated point exactly, the evaluation count, and strict decrease at the returned step with its own evaluation.",
   note="alpha_max recomputed by the harness (1.0 at iteration 0 per the routine's contract); scripted environments are total functions"),
}
