PENDING = "check under construction in this round: not claimed until it runs clean on the unchanged tree (see DESIGN.md section 9)"
NOT_APPLICABLE = {}
_E = "bounded-exhaustive exploration of the real code"
CHECKS = {
 "C01": dict(engine="E1 structural enumerator", level="exploration", ref="DESIGN.md 4/C01",
   technique="exhaustive enumeration of structural input patterns (box/start/minimiser letters x family x Hessian x memory), every case executed on the real solver",
   text="Every combination of per-variable box/start/minimiser letters for n<=2 (quick) and n<=3 plus tilings to n=12 (thorough), for 3 convex families, 3 Hessians, several memory sizes, is run through the real minimize_lbfgsb and the KKT residual is recomputed by the harness. Exhaustive within the stated alphabets; silent about values outside them.",
   note="alphabets of lbv/families.py stand for the continuum; NumPy/SciPy trusted; threshold = max(100*gtol, 30*sqrt(eps*|f|*L))"),
}
