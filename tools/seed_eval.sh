#!/bin/bash
# tools/seed_eval.sh <worktree> <n> <seeded-id> <ID> [<ID>...]
# Confirms an independently written mutant (tests green, demo fails with / passes without)
# in a scratch copy, runs the named quick checks against it, stores it under seeded/<id>/.
set -u
WT=$1; N=$2; SID=$3; shift 3
D=$(mktemp -d /tmp/lbv_seed_XXXXXX)
cp -r /repo/. "$D"/ && rm -rf "$D/.git"
cp $WT/demo$N.py "$D/demo.py"; sed -i "s#$WT#$D#g" "$D/demo.py"
(cd "$D" && PYTHONPATH="$D" OMP_NUM_THREADS=1 timeout 900 /venv/bin/python demo.py >/dev/null 2>&1); C0=$?
(cd "$D" && patch -p1 -s < $WT/mutant$N.diff) || { echo "PATCH FAILED"; rm -rf "$D"; exit 2; }
T=$(cd "$D" && PYTHONPATH="$D" /venv/bin/python -m pytest -q -p no:cacheprovider 2>&1 | tail -1)
(cd "$D" && PYTHONPATH="$D" OMP_NUM_THREADS=1 timeout 900 /venv/bin/python demo.py >/dev/null 2>&1); C1=$?
echo "[$SID] demo clean=$C0 mutant=$C1 tests: $T"
mkdir -p /verif/seeded/$SID
cp $WT/mutant$N.diff /verif/seeded/$SID/patch.diff; cp $WT/demo$N.py /verif/seeded/$SID/demo.py; cp $WT/notes$N.md /verif/seeded/$SID/notes.md 2>/dev/null
RES=""
for id in "$@"; do
  out=$(cd /verif && LBV_REPO="$D" LBV_EVIDENCE_DIR="$D/_ev" ./check "$id" --tier "${TIER:-quick}" 2>&1); rc=$?
  nv=$(echo "$out" | grep -c '^VIOLATION')
  echo "  $id: rc=$rc VIOLATION-lines=$nv $(echo "$out" | grep -E 'violation\(s\)' | head -1 | cut -c1-220)"
  RES="$RES $id:rc=$rc"
done
echo "{\"demo_clean\": $C0, \"demo_mutant\": $C1, \"tests\": \"$T\", \"checks\": \"$RES\"}" > /verif/seeded/$SID/eval.json
rm -rf "$D"
