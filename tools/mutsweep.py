#!/usr/bin/env python3
"""Syntactic mutation sweep: tools/mutsweep.py <out.jsonl> [file ...]

For every one-token operator mutant of the listed lbfgsb source files (default: all
algorithmic files): apply it in a scratch copy of /repo (outside /repo and /verif), keep it
only if the package still imports and the repository's own suite still passes, then run the
quick checks mapped to that file with LBV_REPO pointing at the copy and record which
checks report it.  Survivors (no check reports) are either equivalent mutants or blind
spots; they are listed at the end.  Nothing is ever written to /repo.
"""
import ast
import json
import os
import re
import shutil
import subprocess
import sys
import tempfile
import time

REPO = "/repo"
VERIF = "/verif"
FILES = ["cauchy.py", "subspacemin.py", "linesearch.py", "bfgsmats.py", "scalar_function.py",
         "main.py", "base.py", "utils.py"]
CHECKS = {
    "cauchy.py": ["C08", "C01"],
    "subspacemin.py": ["C09", "C01", "C02"],
    "linesearch.py": ["C11", "C03", "C12", "C02"],
    "bfgsmats.py": ["C10", "C13", "C06", "C12"],
    "scalar_function.py": ["C15", "C16", "C05", "C20"],
    "main.py": ["C04", "C05", "C06", "C07", "C13", "C17", "C14", "C03", "C02", "C20", "C12",
                "C18", "C01"],
    "base.py": ["C01", "C04", "C02"],
    "utils.py": ["C18", "C17", "C03"],
}
OPS = [
    (r"<=", "<"), (r"(?<![<>=!])<(?![=<])", "<="), (r">=", ">"), (r"(?<![<>=!-])>(?![=>])", ">="),
    (r"==", "!="), (r"!=", "=="), (r" \+ ", " - "), (r" - ", " + "), (r" \* ", " / "),
    (r" / ", " * "), (r"\+=", "-="), (r"-=", "+="), (r"\*=", "/="), (r" and ", " or "),
    (r" or ", " and "), (r"\bnot ", ""), (r"\bTrue\b", "False"), (r"\bFalse\b", "True"),
    (r"\b0\.0\b", "1.0"), (r"\b1\.0\b", "0.5"), (r"\[-1\]", "[0]"), (r"\[0\]", "[-1]"),
    (r"\bmin\(", "max("), (r"\bmax\(", "min("), (r"\.copy\(\)", ""), (r"np\.copy\(", "np.asarray("),
    (r"axis=0", "axis=1"), (r"\blb\b", "ub"), (r"\bub\b", "lb"), (r" \+ 1\b", " + 2"),
    (r" - 1\b", " - 0"), (r"\b2\b", "3"), (r"nanmin", "nanmax"), (r"is not None", "is None"),
    (r"is None", "is not None"), (r"lower=True", "lower=False"), (r"\.T\b", ""),
    (r"popleft\(\)", "pop()"), (r"appendleft\(", "append("), (r"\bbreak\b", "pass"),
]


def skip_lines(path):
    """lines belonging to docstrings, comments, display/logging code, type hints only"""
    src = open(path).read()
    tree = ast.parse(src)
    skip = set()
    for node in ast.walk(tree):
        if isinstance(node, (ast.FunctionDef, ast.ClassDef, ast.Module)):
            body = getattr(node, "body", [])
            if body and isinstance(body[0], ast.Expr) and isinstance(getattr(body[0], "value", None), ast.Constant) \
                    and isinstance(body[0].value.value, str):
                skip.update(range(body[0].lineno, body[0].end_lineno + 1))
        if isinstance(node, ast.FunctionDef) and node.name.startswith("display"):
            skip.update(range(node.lineno, node.end_lineno + 1))
        if isinstance(node, ast.FunctionDef):
            # signature lines (defaults are mutated separately by hand)
            skip.update(range(node.lineno, node.body[0].lineno))
    for i, line in enumerate(src.splitlines(), 1):
        t = line.strip()
        if not t or t.startswith("#") or "logger" in t or "iprint" in t or t.startswith("import") \
                or t.startswith("from ") or "raise " in t or "assert" in t or "testing" in t:
            skip.add(i)
    return skip


def stmt_deletions(fname):
    """single-line simple statements (assignments, augmented assignments, calls) inside
    function bodies, each replaced by `pass`: the 'forgot to do X' slip"""
    path = os.path.join(REPO, "lbfgsb", fname)
    src = open(path).read()
    lines = src.splitlines(True)
    skip = skip_lines(path)
    tree = ast.parse(src)
    for fn in ast.walk(tree):
        if not isinstance(fn, ast.FunctionDef) or fn.name.startswith("display"):
            continue
        for node in ast.walk(fn):
            if isinstance(node, (ast.Assign, ast.AugAssign, ast.Expr, ast.AnnAssign)) and \
                    node.lineno == node.end_lineno and node.lineno not in skip:
                if isinstance(node, ast.Expr) and not isinstance(node.value, ast.Call):
                    continue
                line = lines[node.lineno - 1]
                indent = line[:len(line) - len(line.lstrip())]
                yield node.lineno, "DELETE", line, indent + "pass\n"


def mutants(fname):
    if os.environ.get("MUT_MODE") == "delete":
        yield from stmt_deletions(fname)
        return
    path = os.path.join(REPO, "lbfgsb", fname)
    lines = open(path).read().splitlines(True)
    skip = skip_lines(path)
    for i, line in enumerate(lines, 1):
        if i in skip:
            continue
        code = line.split("#")[0]
        for pat, rep in OPS:
            for m in re.finditer(pat, code):
                new = code[:m.start()] + m.expand(rep) + code[m.end():] + line[len(code):]
                if new != line:
                    yield i, pat, line, new


def run(cmd, cwd, env=None, timeout=900):
    try:
        p = subprocess.run(cmd, cwd=cwd, env=env, capture_output=True, text=True, timeout=timeout)
        return p.returncode, p.stdout + p.stderr
    except subprocess.TimeoutExpired:
        return 124, "timeout"


def main():
    out = sys.argv[1]
    files = sys.argv[2:] or FILES
    done = set()
    if os.path.exists(out):
        for l in open(out):
            r = json.loads(l)
            done.add((r["file"], r["line"], r["op"], r["col"]))
    scratch = tempfile.mkdtemp(prefix="lbv_sweep_", dir="/tmp")
    shutil.copytree(REPO, scratch, dirs_exist_ok=True, ignore=shutil.ignore_patterns(".git"))
    env = dict(os.environ, PYTHONPATH=scratch, OMP_NUM_THREADS="1", OPENBLAS_NUM_THREADS="1",
               PYTHONDONTWRITEBYTECODE="1")
    t0 = time.time()
    n = 0
    try:
        for fname in files:
            path = os.path.join(scratch, "lbfgsb", fname)
            orig = open(os.path.join(REPO, "lbfgsb", fname)).read()
            seen_new = set()
            for lineno, pat, old, new in mutants(fname):
                col = len(os.path.commonprefix([old, new]))
                key = (fname, lineno, pat, col)
                if key in done or (lineno, new) in seen_new:
                    continue
                seen_new.add((lineno, new))
                lines = orig.splitlines(True)
                lines[lineno - 1] = new
                open(path, "w").write("".join(lines))
                rec = dict(file=fname, line=lineno, op=pat, col=col, old=old.strip(),
                           new=new.strip())
                rc, o = run(["/venv/bin/python", "-B", "-c", "import lbfgsb"], scratch, env, 60)
                if rc != 0:
                    rec["status"] = "import_error"
                else:
                    rc, o = run(["/venv/bin/python", "-B", "-m", "pytest", "-q", "-x", "-p",
                                 "no:cacheprovider", "--timeout=120"], scratch, env, 600)
                    if rc != 0:
                        rec["status"] = "killed_by_suite"
                    else:
                        rec["status"] = "survives_suite"
                        det = []
                        for cid in CHECKS[fname]:
                            e2 = dict(env, LBV_REPO=scratch, LBV_EVIDENCE_DIR=scratch + "/_ev",
                                      LBV_TIME_CAP="600")
                            rc, o = run([VERIF + "/check", cid], VERIF, e2, 1500)
                            if rc != 0 or "VIOLATION" in o:
                                det.append(cid)
                                break
                        rec["detected_by"] = det
                        shutil.rmtree(scratch + "/_ev", ignore_errors=True)
                n += 1
                with open(out, "a") as fh:
                    fh.write(json.dumps(rec) + "\n")
                print(f"[{time.time() - t0:7.0f}s] {fname}:{lineno} {rec['status']} "
                      f"{rec.get('detected_by', '')} :: {rec['new'][:70]}", flush=True)
            open(path, "w").write(orig)
    finally:
        shutil.rmtree(scratch, ignore_errors=True)


if __name__ == "__main__":
    main()
