#!/usr/bin/env python3
"""tools/seed_meta.py <seeded-id> <property> "<what it needs to manifest>" "<detected by>" """
import json, os, sys
sid, prop, needs, det = sys.argv[1:5]
d = f"/verif/seeded/{sid}"
ev = json.load(open(f"{d}/eval.json"))
meta = dict(
    id=sid, property_broken=prop, origin="independent sub-agent given only the property text and a scratch worktree",
    needs_to_manifest=needs,
    confirmed=dict(tests=ev["tests"], demo_exit_on_clean_tree=ev["demo_clean"], demo_exit_with_change=ev["demo_mutant"],
                   how="tools/seed_eval.sh: scratch copy of /repo outside /repo and /verif, patch applied, repository suite run, demo run with and without the change, quick checks run with LBV_REPO pointing at the copy; copy removed"),
    checks_run=ev["checks"].strip(), detected_by=det,
)
json.dump(meta, open(f"{d}/meta.json", "w"), indent=1)
os.remove(f"{d}/eval.json")
print(sid, "meta written")
