#!/bin/bash
# tools/seeded_regress.sh [seeded-id ...] : re-run every kept seeded change against the
# check(s) its meta.json names as detecting it (scratch copy outside /repo and /verif);
# prints one line per change, "MISSED" when no named check reports it any more.
cd "$(dirname "$0")/.."
IDS="$@"; [ -z "$IDS" ] && IDS=$(ls seeded)
for sid in $IDS; do
  checks=$(/venv/bin/python -c "
import json,re,sys
m=json.load(open('seeded/$sid/meta.json'))
ids=re.findall(r'C\d\d', m['detected_by'])
own=m['property_broken']
out=[]
for i in ([own] if own in ids else [])+ids:
    if i not in out: out.append(i)
print(' '.join(out[:2]))" 2>/dev/null)
  D=$(mktemp -d /tmp/lbv_reg_XXXXXX)
  cp -r /repo/. "$D"/ && rm -rf "$D/.git"
  if ! (cd "$D" && patch -p1 -s < /verif/seeded/$sid/patch.diff); then echo "$sid PATCH-FAILED"; rm -rf "$D"; continue; fi
  T=$(cd "$D" && PYTHONPATH="$D" /venv/bin/python -m pytest -q -p no:cacheprovider -x 2>&1 | tail -1)
  res=""; hit=0
  for id in $checks; do
    out=$(LBV_REPO="$D" LBV_EVIDENCE_DIR="$D/_ev" ./check "$id" 2>&1); rc=$?
    if [ $rc -ne 0 ] && echo "$out" | grep -q '^VIOLATION'; then res="$res $id:reported"; hit=1; break; else res="$res $id:silent"; fi
  done
  [ $hit -eq 1 ] && echo "$sid ok [$res ] tests: $T" || echo "$sid MISSED [$res ] tests: $T"
  rm -rf "$D"
done
echo "seeded_regress done"
