#!/usr/bin/env python3
"""Regenerates MANIFEST.json from the table below (kept valid against the schema)."""
import json, os, sys
HERE = os.path.dirname(os.path.dirname(os.path.abspath(__file__)))
sys.path.insert(0, HERE)
from tools.manifest_table import CHECKS, PENDING, NOT_APPLICABLE  # noqa

props = [json.loads(l) for l in open(os.path.join(HERE, "properties.jsonl"))]
ids = [p["id"] for p in props]
checks = []
for pid in ids:
    if pid not in CHECKS:
        continue
    c = CHECKS[pid]
    checks.append(dict(
        property_id=pid,
        quick_cmd=f"./check {pid} --tier quick",
        thorough_cmd=f"./check {pid} --tier thorough",
        evidence_file=f"evidence/{pid}.json",
        replay_cmd_template=f"./check {pid} --replay {{path}}",
        engine=c["engine"],
        level_claimed=dict(category=c["level"], text=c["text"], design_ref=c["ref"]),
        level_note=c["note"],
        technique=c["technique"],
    ))
na = [dict(property_id=p, reason=r) for p, r in NOT_APPLICABLE.items()]
na += [dict(property_id=p, reason=PENDING) for p in ids if p not in CHECKS and p not in NOT_APPLICABLE]
man = dict(
    version=1,
    setup_cmd="/venv/bin/python -B -c \"import sys; sys.path.insert(0,'/repo'); import lbfgsb, numpy, scipy; print('lbv ready', numpy.__version__, scipy.__version__)\"",
    hooks=dict(guard="LBFGSB_VERIF",
               enable="no source hook is needed: checks import lbfgsb from /repo's working tree (sys.path) and observe it through user callables and harness-side wrappers",
               baseline_off_cmd="cd /repo && /venv/bin/python -m pytest -ra -q -p no:cacheprovider --timeout=900 --continue-on-collection-errors",
               source_commits=[], add_only=True),
    engines=[
        dict(name="lbv-core", path="lbv/core.py", serves_properties=sorted(CHECKS),
             kind_free_text="sharded bounded-exhaustive case enumerator driving the real code; replay artefacts; known-findings matcher; evidence writer"),
    ],
    checks=checks,
    not_applicable=na,
    notes="All checks: ./check <ID> [--tier quick|thorough] [--replay file]. VERIF_SEED selects the numeric variant table (seed mod 4) in the quick tier; the structural enumeration is seed-independent. See DESIGN.md.",
)
json.dump(man, open(os.path.join(HERE, "MANIFEST.json"), "w"), indent=1)
try:
    import jsonschema
    jsonschema.validate(man, json.load(open("/root/.vp/MANIFEST.schema.json")))
    print("MANIFEST.json valid;", len(checks), "checks,", len(na), "not claimed")
except ImportError:
    print("written (jsonschema not available)")
