#!/bin/bash
# runs every thorough check in sequence, prints the summary line and any VIOLATION
cd "$(dirname "$0")/.."
for c in "$@"; do
  s=$(date +%s); out=$(./check $c --tier thorough 2>&1); rc=$?
  echo "$c rc=$rc $(($(date +%s)-s))s :: $(echo "$out" | tail -1)"
  echo "$out" | grep -A1 '^VIOLATION' | head -6 | cut -c1-400
done
