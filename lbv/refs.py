"""Boring reference oracles (dense algebra), written independently of the package."""
from collections import deque

import numpy as np

from lbv import core  # noqa: F401

INF = np.inf


def dense_B(pairs, n):
    """Dense BFGS matrix: pairs applied in order to theta*I, theta from the newest pair."""
    if not pairs:
        return np.eye(n), 1.0
    s, y = pairs[-1]
    theta = float(y @ y) / float(s @ y)
    B = theta * np.eye(n)
    for s, y in pairs:
        Bs = B @ s
        B = B - np.outer(Bs, Bs) / float(s @ Bs) + np.outer(y, y) / float(y @ s)
    return B, theta


def pairs_of_mats(mats):
    """The correction pairs the compact matrices were built from (columns of S, Y)."""
    if not mats.use_factor:
        return []
    return [(mats.S[:, j].copy(), mats.Y[:, j].copy()) for j in range(mats.S.shape[1])]


def model(xx, x, g, B):
    z = xx - x
    return float(g @ z + 0.5 * z @ (B @ z))


def ref_gcp(x, g, lb, ub, B):
    """First local minimiser of the quadratic model along P(x - t g) (Byrd-Lu-Nocedal),
    segment by segment, tied breakpoints processed together.  Returns (xc, t_break, t_end)
    where t_break are the per-variable breakpoints and t_end the path parameter reached."""
    n = x.size
    t = np.full(n, INF)
    for i in range(n):
        if g[i] < 0:
            t[i] = (x[i] - ub[i]) / g[i]
        elif g[i] > 0:
            t[i] = (x[i] - lb[i]) / g[i]
    d = np.where(t == 0, 0.0, -g)
    xc = x.copy()
    told = 0.0
    bps = sorted(set(t[(t > 0) & np.isfinite(t)]))
    for tb in bps + [INF]:
        if not np.any(d != 0):
            break
        z = xc - x
        fp = float(g @ d + d @ (B @ z))
        fpp = float(d @ (B @ d))
        if fp >= 0:
            break
        dtmin = -fp / fpp
        if dtmin < tb - told:
            xc = xc + dtmin * d
            told = told + dtmin
            break
        xc = xc + (tb - told) * d
        for i in range(n):
            if t[i] == tb:
                xc[i] = ub[i] if d[i] > 0 else lb[i]
                d[i] = 0.0
        told = tb
    return xc, t, told


def ref_sub(x, xc, g, lb, ub, B):
    """Box-truncated Newton point of the model restricted to the variables free at xc."""
    free = [i for i in range(x.size) if xc[i] != lb[i] and xc[i] != ub[i]]
    if not free:
        return xc.copy(), 1.0, free
    r = (g + B @ (xc - x))[free]
    dF = -np.linalg.solve(B[np.ix_(free, free)], r)
    a = 1.0
    for k, i in enumerate(free):
        if dF[k] > 0 and np.isfinite(ub[i]):
            a = min(a, (ub[i] - xc[i]) / dF[k])
        if dF[k] < 0 and np.isfinite(lb[i]):
            a = min(a, (lb[i] - xc[i]) / dF[k])
    xb = xc.copy()
    xb[free] += a * dF
    return xb, a, free


def build_mats(pairs, n, maxcor=10):
    """Compact matrices built by the package's own update routine from a pair list."""
    from lbfgsb.bfgsmats import LBFGSB_MATRICES, update_lbfgs_matrices
    mats = LBFGSB_MATRICES(n)
    if not pairs:
        return mats
    x = np.zeros(n)
    g = np.zeros(n)
    X = deque([x.copy()])
    G = deque([g.copy()])
    for s, y in pairs:
        x = x + s
        g = g + y
        mats = update_lbfgs_matrices(x.copy(), g.copy(), X, G, maxcor, mats, False)
    assert len(X) == len(pairs) + 1, "reference pair rejected by the package"
    return mats
