"""Engine E4: schedule explorer.  Each optimisation runs in its own thread; every
user-callable invocation is a scheduling point (per-thread semaphore baton, the controller
picks the next thread; canonical order: the running thread first if still enabled, then
ascending ids).  Stateless DFS over choice sequences by prefix replay, preemption-bounded.
Only one thread ever runs at a time, so executions are deterministic and replayable."""
import threading

from lbv import core  # noqa: F401


class Abort(Exception):
    pass


class Run:
    """One controlled execution of `bodies` (callables taking a `point` function)."""

    def __init__(self, bodies, choices):
        self.bodies = bodies
        self.n = len(bodies)
        self.choices = list(choices)
        self.sem = [threading.Semaphore(0) for _ in range(self.n)]
        self.ctl = threading.Semaphore(0)
        self.done = [False] * self.n
        self.results = [None] * self.n
        self.errors = [None] * self.n
        self.progress = [0] * self.n
        self.trace = []      # (enabled tuple, chosen, running_before, progress tuple)
        self.divergence = None

    def _thread(self, i):
        def point():
            self.progress[i] += 1
            self.ctl.release()          # tell the controller we stopped at a point
            self.sem[i].acquire()       # wait for the baton
        try:
            self.sem[i].acquire()
            self.results[i] = self.bodies[i](point)
        except BaseException as e:  # noqa: B902
            self.errors[i] = e
        finally:
            self.done[i] = True
            self.ctl.release()

    def execute(self):
        ths = [threading.Thread(target=self._thread, args=(i,), daemon=True)
               for i in range(self.n)]
        for t in ths:
            t.start()
        running = None
        step = 0
        while not all(self.done):
            enabled = [i for i in range(self.n) if not self.done[i]]
            # canonical order: running thread first if still enabled, then ascending ids
            order = ([running] if running in enabled else []) + \
                [i for i in enabled if i != running]
            if step < len(self.choices):
                c = self.choices[step]
                if c >= len(order):
                    self.divergence = (step, c, len(order))
                    c = 0
            else:
                c = 0
            chosen = order[c]
            self.trace.append((tuple(order), c, running, tuple(self.progress)))
            running = chosen
            step += 1
            self.sem[chosen].release()
            self.ctl.acquire()          # wait until it stops at its next point or ends
        for t in ths:
            t.join(timeout=10)
        return self


def explore(bodies_factory, bound, check, prefix=(), max_exec=None):
    """DFS over schedules.  bodies_factory() -> fresh list of bodies for one execution;
    check(run) -> list of problems found in that execution.
    Returns dict(executions, states, transitions, findings, capped)."""
    stats = dict(executions=0, states=set(), transitions=0, findings=[], capped=False)

    def rec(pref):
        if max_exec is not None and stats["executions"] >= max_exec:
            stats["capped"] = True
            return
        run = Run(bodies_factory(), pref).execute()
        stats["executions"] += 1
        if run.divergence is not None:
            stats["findings"].append(("replay_divergence", dict(at=run.divergence), list(pref)))
            return
        for (order, c, running, prog) in run.trace:
            stats["states"].add((prog, running))
        stats["transitions"] += len(run.trace)
        taken = [c for (_, c, _, _) in run.trace]
        for f in check(run):
            stats["findings"].append((f[0], f[1], taken))
        # expand alternatives after the prefix
        pre = 0
        costs = []
        for (order, c, running, prog) in run.trace:
            # cost of the decision actually taken so far
            costs.append(pre)
            if c != 0 and running is not None and running in order:
                pre += 1
        for i in range(len(pref), len(run.trace)):
            order, c, running, prog = run.trace[i]
            for alt in range(1, len(order)):
                cost = costs[i] + (1 if (running is not None and running in order) else 0)
                if bound is not None and cost > bound:
                    continue
                rec(tuple(taken[:i]) + (alt,))
    rec(tuple(prefix))
    return stats
