"""C16 - finite-difference modes work at the bounds and agree with exact gradients."""
import numpy as np

from lbv import core
from lbv.core import V
from lbv import families as F

PID = "C16"
LEVEL = "exploration"
DESIGN_REF = "DESIGN.md section 4 / C16"
CHUNK = 8
RULE = ("every 2-variable (and 1-variable) letter combination of the convex families "
        "(quick: {qp, soft} x {diag, rot2}; thorough: all) x jac {None, 2-point, 3-point, "
        "cs} x step letter {default, 1e-4, 0.3}, each compared with the exact-gradient run "
        "of the same case, plus a slice with the objective returning one reused 0-d/1-element "
        "array and a slice with the whole problem translated by 2e3 / -1e5; thorough adds 12 benchmark/non-convex objectives in boxes with "
        "face/vertex starts; oracle: no exception, every stencil point inside the box "
        "(exact; real part for cs), nfev == number of objective calls, "
        "and for the step letters default and 1e-4: |f_FD - f_exact| <= 1e-7*(1+|f_exact|) + "
        "2n(h*Lc)^2/mu (Lc = largest diagonal Hessian entry, mu = smallest eigenvalue); non-trivial = some variable on a bound at "
        "the start or at the solution; distinct = distinct case")
ASSUMPTIONS = [
    "the accuracy bound of a forward difference with step h is h*Lc on the gradient, hence "
    "(h*Lc)^2/mu on the optimal value of a mu-strongly convex objective",
    "large steps (0.3) legitimately move the optimum: only the first three clauses apply",
]
JACS = (None, "2-point", "3-point", "cs")
STEPS = ("default", 1e-4, 0.3)
DOC = None


def cases(tier, variants):
    fams = ("qp", "soft") if tier == "quick" else F.FAMS
    for n in (1, 2):
        hs = None if (tier == "thorough" or n == 1) else ("diag", "rot2")
        for c in F.convex_cases(n, variants, (3,), fams=fams, hesses=hs):
            for ji in range(4):
                for si in range(3):
                    yield dict(c, part="cvx", jac=ji, step=si)
    # stiff separable quadratic (curvatures 1e4..1e7) with absolute steps up to 1e-6: the
    # product step x curvature reaches 10 (an option that leaks into a curvature threshold
    # shows here and nowhere else)
    for v in variants:
        for boxes, start in ((["box", "lo", "box", "free"], ["in", "lb", "ub", "in"]),
                             (["box", "box", "box", "box"], ["lb", "in", "in", "ub"])):
            for ml in (["below", "inside", "above", "inside"], ["inside", "above", "below", "above"]):
                for es in (1e-8, 1e-7, 1e-6):
                    yield dict(kind="convex", fam="qp", hess="stiff", n=4, boxes=boxes,
                               start=start, minloc=ml, var=v, maxcor=3, part="cvx", jac=0,
                               step=0, abs_eps=es)
    # configuration letter: a gradient scaler together with finite differences
    for c in F.convex_cases(2, variants, (3,), fams=("qp",), hesses=("rot2",)):
        for ji in range(4):
            yield dict(c, part="cvx", jac=ji, step=0, scaler=0.37)
    # user letter: the objective hands its value back in one preallocated 0-d / 1-element
    # array that it refills at every call
    for c in F.convex_cases(2, variants, (3,), fams=("qp",), hesses=("rot2",)):
        for ji in range(3):
            yield dict(c, part="cvx", jac=ji, step=0, ret=("buf0", "buf1")[ji % 2])
    # letter: variables of large magnitude (whole problem translated by 2e3 / -1e5): an
    # absolute step (jac=None, eps) and a relative one (named schemes) differ by that factor
    for sh in (2e3, -1e5):
        for c in F.convex_cases(2, variants, (3,), fams=("qp",), hesses=("rot2",)):
            for ji, si in ((0, 0), (0, 1), (1, 0), (1, 1), (2, 0)):
                yield dict(c, part="cvx", jac=ji, step=si, shift=sh)
    # ... and by 1e6: the box sides are then thin relative to the variables (width/|x| ~
    # 3e-6) without being degenerate
    for c in F.convex_cases(2, variants, (3,), fams=("qp",), hesses=("rot2",),
                            boxes=("box", "lo")):
        for ji in range(4):
            yield dict(c, part="cvx", jac=ji, step=0, shift=1e6)
    # box sides far narrower than the finite-difference step (variables ~1e-9): only the
    # no-exception / in-the-box / nfev clauses apply, like for the 0.3 step letter
    for c in F.convex_cases(2, variants, (3,), fams=("qp",), hesses=("rot2",)):
        for ji in range(3):
            yield dict(c, part="cvx", jac=ji, step=0, narrow=1e-9)
    # the package's own convex benchmark functions in a box with active bounds, every
    # mode against the run with the packaged exact gradient
    for v in variants:
        for fam in ("sphere", "quartic"):
            for n in (2, 3):
                for start in ("in", "face", "vertex"):
                    for ji in range(4):
                        yield dict(part="bench", kind="nonconvex", fam=fam, n=n, box="box",
                                   start=start, var=v, maxcor=3, jac=ji, step=0)
    if tier == "thorough":
        for v in variants:
            for fam in F.NONCONVEX:
                for n in (2, 3):
                    for box in ("box", "mixed"):
                        if fam == "linear" and box == "mixed":
                            continue   # unbounded below along the free sides: no minimiser
                        for start in ("face", "vertex"):
                            for ji in range(4):
                                for si in range(3):
                                    yield dict(part="ncv", kind="nonconvex", fam=fam, n=n,
                                               box=box, start=start, var=v, maxcor=3, jac=ji,
                                               step=si)


def run(case):
    from lbfgsb import minimize_lbfgsb
    p = F.problem_of(case)
    jac, step = JACS[case["jac"]], STEPS[case["step"]]
    if jac == "cs":
        try:
            p.f(p.x0 + 1e-20j)
        except Exception:
            return dict(viol=[], outcome="cs_unsupported", stats={"skipped": 1})
    obs = F.Obs(p.f, p.g, p.lb, p.ub)
    ufun = obs.fun
    if case.get("ret"):
        retbuf = np.zeros(() if case["ret"] == "buf0" else (1,))

        def ufun(x):
            retbuf[...] = obs.fun(x)
            return retbuf
    kw = dict(bounds=p.bounds, maxcor=case["maxcor"], maxiter=200, maxfun=20000, ftol=0.0,
              gtol=1e-6)
    fd = {}
    if case.get("abs_eps"):
        fd["eps"] = case["abs_eps"]
    if step != "default":
        if jac is None:
            fd["eps"] = step
        else:
            fd["finite_diff_rel_step"] = step
    viol = []
    if case.get("scaler"):
        kw["gradient_scaler"] = (lambda *a_, _s=case["scaler"]: _s)
        kw["gtol"] = 1e-6 * case["scaler"]
    try:
        res = minimize_lbfgsb(x0=p.x0.copy(), fun=ufun, jac=jac, **kw, **fd)
    except core.CaseTimeout:
        raise
    except np.linalg.LinAlgError as e:
        # Cholesky breakdown of the middle matrix on *noisy* difference gradients close to
        # convergence (a pair of rounding-level size is accepted next to O(1) pairs).  Not
        # caused by a bound, hence outside this property's "never raises because an
        # iterate touches or grazes a bound" (DESIGN.md section 1, Exceptions): counted.
        bad = []
        if obs.outside:
            bad.append(V("stencil_point_outside_box", x=obs.outside[0][2], lb=p.lb, ub=p.ub))
        return dict(viol=bad, outcome="LinAlgError_on_noisy_gradients",
                    stats={"linalg_error_noise": 1})
    except Exception as e:
        viol.append(V("finite_difference_run_raises", exc=repr(e)[:300],
                      outside=len(obs.outside)))
        return dict(viol=viol, outcome="exception:" + type(e).__name__)
    if obs.nonfinite:
        # the objective itself returned inf/nan at a finite point (overflow far away from
        # the box under the 0.3 step letter): inf/nan-returning objectives are outside the
        # alphabets (DESIGN.md section 8): counted, not judged
        return dict(viol=[], outcome="objective_returned_nonfinite", stats={"nonfinite": 1})
    if obs.outside:
        k, idx, x = obs.outside[0]
        viol.append(V("stencil_point_outside_box", x=x, lb=p.lb, ub=p.ub,
                      n_outside=len(obs.outside)))
    if res.nfev != obs.nf:
        viol.append(V("nfev_does_not_count_every_objective_call", nfev=int(res.nfev),
                      calls=obs.nf))
    x = np.asarray(res.x, float)
    onb = bool(np.any((p.x0 <= p.lb) | (p.x0 >= p.ub)) or np.any((x <= p.lb) | (x >= p.ub)))
    if case["part"] == "bench":
        ex = minimize_lbfgsb(x0=p.x0.copy(), fun=p.f, jac=p.g, **kw)
        fe, ff = float(p.f(np.asarray(ex.x, float))), float(p.f(x))
        if not abs(ff - fe) <= 1e-6 * (1.0 + abs(fe)):
            viol.append(V("objective_value_differs_from_exact_gradient_solution", f_fd=ff,
                          f_exact=fe, threshold=1e-6 * (1.0 + abs(fe)), msg_fd=str(res.message),
                          msg_exact=str(ex.message)))
    if case["part"] == "cvx" and step != 0.3 and not case.get("narrow"):
        ex = minimize_lbfgsb(x0=p.x0.copy(), fun=p.f, jac=p.g, **kw)
        fe, ff = float(p.f(np.asarray(ex.x, float))), float(p.f(x))
        h = {None: 1e-8, "2-point": 1.5e-8, "3-point": 6.1e-6, "cs": 1.5e-8}[jac] \
            if step == "default" else step
        if jac is not None:
            # named schemes: the step is relative to |x_i|; jac=None: `eps` is absolute
            h = h * max(1.0, float(np.max(np.abs(x))))
        if case.get("abs_eps"):
            h = case["abs_eps"]
        Lc = float(np.max(np.diag(p.H))) + (3.0 * float(np.max((x - p.xs) ** 2))
                                            if case["fam"] == "quart" else 0.25)
        mu = float(np.linalg.eigvalsh(p.H)[0])
        # forward differences of a quadratic are off by h*H_ii/2 per component: the optimum
        # moves by H^-1 of that and the value by at most n (h Lc)^2 / (8 mu); factor 16 of
        # margin, plus a relative rounding floor
        thr = 1e-7 * (1.0 + abs(fe)) + 2.0 * p.n * (h * Lc) ** 2 / mu
        if not abs(ff - fe) <= thr:
            viol.append(V("objective_value_differs_from_exact_gradient_solution", f_fd=ff,
                          f_exact=fe, threshold=thr, msg_fd=str(res.message),
                          msg_exact=str(ex.message)))
    return dict(viol=viol, outcome=f"{jac}|{res.message}",
                nontrivial=core.case_hash(case) if onb else None)
