"""C06 - restarting from a returned result continues the run (engine E3)."""
import copy
import itertools

import numpy as np

from lbv import core, hist as H
from lbv.core import V
from lbv import families as F

PID = "C06"
LEVEL = "exploration"
DESIGN_REF = "DESIGN.md section 4 / C06"
CHUNK = 4
K = 10
KC = 8
TOL = 1e-8
RULE = ("base runs = {quart, soft} x 3 Hessians x boxes {free, box, mixed} (n=3) + "
        "Rosenbrock n in {2,4} + Styblinski-Tang, x maxcor {1,2,3,5}; EVERY split "
        "iteration k in 1..10; EVERY chain of <= 3 restarts inside 8 iterations (all 63 "
        "subsets of split points; quick: on base runs with maxcor in {2,5}); maxcor reduced "
        "to every m' <= maxcor at k in {3,6}; configuration letters on the splits: finite-difference gradient with a budget ending inside the next line search, a large unused `eps`, a gradient scaler (constant 10 / 0.1, packaged) in parent and restart; oracle: zero-iteration restart returns the "
        "checkpoint's point and pairs, next iterate of the restart equals the parent's "
        "(1e-8 relative), each chain link compared with its own parent continued, reduced "
        "memory keeps the most recent pairs and equals the restart from the "
        "harness-truncated checkpoint; non-trivial = split with >= 2 stored pairs; "
        "distinct = distinct (base run, split/chain)")
ASSUMPTIONS = [
    "'up to rounding' = 1e-8 relative (calibrated: worst observed 1.6e-13 on the repaired tree)",
    "splits where the parent run did not stop by maxiter are skipped and counted",
]


def cases(tier, variants):
    for b in H.base_runs(variants):
        for k in range(1, K + 1):
            yield dict(b, part="split", k=k)
        if tier == "thorough" or b["maxcor"] in (2, 5):
            for r in (1, 2, 3):
                for sp in itertools.combinations(range(1, KC), r):
                    yield dict(b, part="chain", splits=list(sp))
        for k in (3, 6):
            for m2 in range(1, b["maxcor"] + 1):
                yield dict(b, part="reduce", k=k, m2=m2)
    # configuration letters: finite-difference gradient (nfev != njev) and an evaluation
    # budget that runs out inside the line search of iteration k+1 in both runs
    for b in H.base_runs(variants, maxcors=(3,), small=(tier == "quick")):
        for k in range(1, 9):
            for dl in (1, 2, 3, 1000):
                yield dict(b, part="split", k=k, fd="2-point", dmaxfun=dl)
    yield from _extra_cases(tier, variants)
    # base runs in which correction pairs get REJECTED (steps cut by a bound or by the
    # user's maximum step length in regions of negative curvature): splits right after a
    # rejected pair, with older pairs kept, full memory or not
    # (under ALL numeric variants: whether a cut step meets negative curvature depends on
    # the numbers)
    for v in range(core.NVAR):
        for fam in ("coswell", "oscil", "sinsum"):
            for n in (2, 3, 4):
                for box, st, ms in (("box", "in", None), ("box", "face", None),
                                    ("free", "in", 1.0), ("free", "in", 0.3)):
                    for m in (1, 2, 5):
                        for k in range(1, K + 1):
                            yield dict(kind="nonconvex", fam=fam, n=n, box=box, start=st, var=v,
                                       maxcor=m, label=f"{fam}{n}", part="split", k=k,
                                       **({"maxstep": ms} if ms else {}))


def _extra_cases(tier, variants):
    # configuration letter: an unrelated option (the finite-difference step `eps`, unused
    # with a callable gradient) set to a large value in the parent and in the restart
    for b in H.base_runs(variants, maxcors=(3,), small=(tier == "quick")):
        for k in range(1, 9):
            yield dict(b, part="split", k=k, fdeps=0.5)
    # configuration letter: a gradient scaler in use, in the parent and in the restart
    for b in H.base_runs(variants, maxcors=(3,), small=(tier == "quick")):
        for k in range(1, 9):
            for sc in (10.0, 0.1, "packaged"):
                yield dict(b, part="split", k=k, scaler=sc)


def run(case):
    p = F.problem_of(case)
    part = case["part"]
    viol = []
    if part == "split":
        k = case["k"]
        kwx = {}
        if case.get("fdeps"):
            kwx["eps"] = case["fdeps"]
        if case.get("maxstep"):
            kwx["max_steplength"] = case["maxstep"]
        if case.get("scaler"):
            # configuration letter: the same gradient scaler in the parent and in the
            # restart (constant factor, or the packaged state-dependent one)
            if case["scaler"] == "packaged":
                from lbfgsb import get_gradient_projection_unit_scaling as _sc
                x0c_ = np.clip(p.x0, p.lb, p.ub)
                if F.pgnorm(x0c_, np.asarray(p.g(x0c_), float), p.lb, p.ub) == 0:
                    return dict(viol=[], outcome="zero_pg_skipped", stats={"skipped": 1})
            else:
                _sc = (lambda *a_, _s=float(case["scaler"]): _s)
            kwx["gradient_scaler"] = _sc
        if case.get("fd"):
            kwx["jac"] = case["fd"]
            n_at_k = H.solve(p, case, k, **kwx).nfev
            kwx["maxfun"] = int(n_at_k) + case["dmaxfun"]
        _solve = H.solve
        H_solve = lambda *a, **kk: _solve(*a, **dict(kwx, **kk))  # noqa: E731
        ck = H_solve(p, case, k)
        if not H.stopped_by_maxiter(ck, k):
            return dict(viol=[], outcome="parent_stopped_early", stats={"skipped": 1})
        ck0 = copy.deepcopy(ck)
        r0 = H_solve(p, case, k, checkpoint=copy.deepcopy(ck))
        # (i) zero-iteration restart: same state, same pairs
        bad = H.same_state(r0, ck0, fields=("x",))
        bad = [b for b in bad if b not in ("sk", "yk")]
        if bad:
            viol.append(V("zero_iteration_restart_changed_state", fields=bad))
        if r0.hess_inv.sk.shape != ck0.hess_inv.sk.shape:
            viol.append(V("zero_iteration_restart_lost_pairs", got=r0.hess_inv.sk.shape,
                          want=ck0.hess_inv.sk.shape))
        elif ck0.hess_inv.sk.size and (H.relerr(r0.hess_inv.sk, ck0.hess_inv.sk) > TOL or
                                       H.relerr(r0.hess_inv.yk, ck0.hess_inv.yk) > TOL):
            viol.append(V("zero_iteration_restart_changed_pairs",
                          err_s=H.relerr(r0.hess_inv.sk, ck0.hess_inv.sk),
                          err_y=H.relerr(r0.hess_inv.yk, ck0.hess_inv.yk)))
        # (ii) next iterate
        par = H_solve(p, case, k + 1)
        if par.nit == k + 1 and "ITERATIONS" in str(par.message):
            ch = H_solve(p, case, k + 1, checkpoint=copy.deepcopy(ck))
            err = H.relerr(ch.x, par.x)
            if err > TOL:
                viol.append(V("restart_next_iterate_differs", err=err, child=ch.x, parent=par.x,
                              pairs=int(ck0.hess_inv.sk.shape[0])))
        npairs = int(ck0.hess_inv.sk.shape[0])
        # was the newest candidate pair of the parent rejected at the split?
        rej = 0
        if k >= 2:
            prev = H_solve(p, case, k - 1)
            rej = int(prev.hess_inv.sk.shape == ck0.hess_inv.sk.shape
                      and np.array_equal(prev.hess_inv.sk, ck0.hess_inv.sk)
                      and not np.array_equal(prev.x, ck0.x))
        return dict(viol=viol, outcome=f"pairs{npairs}",
                    nontrivial=core.case_hash(case) if npairs >= 2 else None,
                    stats={"links": 1, "splits_right_after_a_rejected_pair": rej})
    if part == "chain":
        splits = case["splits"]

        def parent0(k):
            return H.solve(p, case, k)
        par = parent0
        links = 0
        for i, k in enumerate(splits):
            ck = par(k)
            if not H.stopped_by_maxiter(ck, k):
                break
            nxt_parent = par(k + 1)
            ckc = copy.deepcopy(ck)

            def child(kk, _ck=ckc):
                return H.solve(p, case, kk, checkpoint=copy.deepcopy(_ck))
            if nxt_parent.nit < k + 1:
                break
            nxt_child = child(k + 1)
            links += 1
            err = H.relerr(nxt_child.x, nxt_parent.x)
            if err > TOL:
                viol.append(V("chain_link_next_iterate_differs", link=i, k=k, err=err))
                break
            par = child
        return dict(viol=viol, outcome=f"links{links}",
                    nontrivial=core.case_hash(case) if links >= 2 else None,
                    stats={"links": links})
    # reduced memory at the restart
    k, m2 = case["k"], case["m2"]
    ck = H.solve(p, case, k)
    if not H.stopped_by_maxiter(ck, k):
        return dict(viol=[], outcome="parent_stopped_early", stats={"skipped": 1})
    ck0 = copy.deepcopy(ck)
    r0 = H.solve(p, case, k, checkpoint=copy.deepcopy(ck), maxcor=m2)
    exp = ck0.hess_inv.sk[-m2:]
    expy = ck0.hess_inv.yk[-m2:]
    if r0.hess_inv.sk.shape != exp.shape:
        viol.append(V("reduced_memory_wrong_number_of_pairs", got=r0.hess_inv.sk.shape,
                      want=exp.shape))
    elif exp.size and (H.relerr(r0.hess_inv.sk, exp) > TOL or H.relerr(r0.hess_inv.yk, expy) > TOL):
        viol.append(V("reduced_memory_not_the_most_recent_pairs",
                      err=H.relerr(r0.hess_inv.sk, exp)))
    a = H.solve(p, case, k + 1, checkpoint=copy.deepcopy(ck), maxcor=m2)
    b = H.solve(p, case, k + 1, checkpoint=H.truncated(ck, m2), maxcor=m2)
    if H.relerr(a.x, b.x) > TOL:
        viol.append(V("reduced_memory_differs_from_truncated_checkpoint",
                      err=H.relerr(a.x, b.x)))
    return dict(viol=viol, outcome=f"reduce{ck0.hess_inv.sk.shape[0]}to{m2}",
                nontrivial=core.case_hash(case) if m2 < ck0.hess_inv.sk.shape[0] else None)
