"""C20 - failures of user callables surface unchanged and leave nothing behind (E3,
fault enumeration: every call index of every kind of user callable x exception types)."""
import hashlib
import subprocess
import sys

import numpy as np

from lbv import core
from lbv.core import V
from lbv import families as F

PID = "C20"
LEVEL = "fault_enumeration"
DESIGN_REF = "DESIGN.md section 4 / C20"
CHUNK = 2
RULE = ("base runs {Rosenbrock n=3 boxed, QP+quartic n=3 mixed box} x jac {callable, "
        "'2-point'} with all seven kinds of user callable active (objective, gradient, "
        "callback, update function, gradient scaler, callable ftarget, callable gtol); "
        "fault point = (kind, call index i) for EVERY i of the fault-free run x 14 "
        "exception types (every type the package's own except clauses name, plus "
        "KeyboardInterrupt/StopIteration/a custom class); oracle: the very same exception "
        "object reaches the caller, and a fault-free call made right after returns bitwise "
        "the baseline, which itself equals the result computed in a fresh process; "
        "non-trivial = fault injected after at least one completed iteration or in a "
        "non-objective callable; distinct = distinct (base, kind, index, type)")
ASSUMPTIONS = [
    "a failure is an exception raised by the user's callable; hangs/segfaults are out of scope",
    "fresh-process baseline compared through a SHA-1 of (x, fun, jac, nfev, njev, nit, pairs)",
]


class Boom(Exception):
    pass


EXC = [RuntimeError, TypeError, IndexError, ValueError, AssertionError, ZeroDivisionError,
       FloatingPointError, KeyError, AttributeError, OverflowError, np.linalg.LinAlgError,
       StopIteration, KeyboardInterrupt, Boom]
KINDS = ("fun", "jac", "cb", "upd", "scaler", "ftarget", "gtol")
# third field: logging configuration of the run (a logger with iprint=101 exercises every
# display/frame code path around the user callables)
BASES = (("rosen", "callable"), ("rosen", "2-point"), ("quart", "callable"),
         ("quart", "2-point"), ("rosen", "callable", "verbose"))


def base_problem(name, v):
    if name == "rosen":
        from lbfgsb import rosenbrock, rosenbrock_grad
        x0 = np.array([-1.2 + 0.01 * v, 1.0, 0.3])
        return rosenbrock, rosenbrock_grad, x0, np.array([[-2.0, 2.0]] * 3)
    c = dict(kind="convex", fam="quart", hess="rot2", n=3, boxes=["free", "box", "lo"],
             start=["in", "ub", "in"], minloc=["below", "inside", "above"], var=v)
    p = F.convex_problem(c)
    return p.f, p.g, p.x0, p.bounds


def run_once(name, jac, v, inject=None, verbose=False):
    """inject = (kind, 1-based index, exception object)"""
    from lbfgsb import minimize_lbfgsb
    f0, g0, x0, bounds = base_problem(name, v)
    cnt = {k: 0 for k in KINDS}

    def hit(kind):
        cnt[kind] += 1
        if inject and inject[0] == kind and inject[1] == cnt[kind]:
            raise inject[2]

    def f(x):
        hit("fun")
        return f0(x)

    def g(x):
        hit("jac")
        return g0(x)

    def cb(x, s):
        hit("cb")
        return False

    def upd(x, f_, f_old, grad, X, G):
        hit("upd")
        return f_, f_old, grad, G

    def sc(x, g_, lb, ub):
        hit("scaler")
        return 0.5

    def ft():
        hit("ftarget")
        return -1e30

    def gt():
        hit("gtol")
        return 1e-9
    extra = {}
    if verbose:
        import logging
        lg = logging.getLogger("lbv-c20")
        lg.handlers[:] = [logging.NullHandler()]
        lg.propagate = False
        lg.setLevel(logging.DEBUG)
        extra = dict(iprint=101, logger=lg)
    res = minimize_lbfgsb(x0=x0.copy(), fun=f, jac=(g if jac == "callable" else jac),
                          bounds=bounds, callback=cb, update_fun_def=upd, gradient_scaler=sc,
                          ftarget=ft, gtol=gt, maxiter=4, maxcor=2, **extra)
    return res, cnt


def digest(res):
    h = hashlib.sha1()
    for a in (res.x, np.float64(res.fun), res.jac, np.int64(res.nfev), np.int64(res.njev),
              np.int64(res.nit), res.hess_inv.sk, res.hess_inv.yk):
        h.update(np.ascontiguousarray(a).tobytes())
    h.update(str(res.message).encode())
    return h.hexdigest()


def cases(tier, variants):
    for v in variants:
        for bs in BASES:
            name, jac = bs[0], bs[1]
            vb = len(bs) > 2
            yield dict(part="fresh", var=v, base=name, jac=jac, verbose=vb)
            _, cnt = run_once(name, jac, v, verbose=vb)
            for kind in KINDS:
                for i in range(1, cnt[kind] + 1):
                    yield dict(part="fault", var=v, base=name, jac=jac, kind=kind, idx=i,
                               verbose=vb)


def run(case):
    name, jac, v = case["base"], case["jac"], case["var"]
    vb = bool(case.get("verbose"))
    try:
        base, cnt = run_once(name, jac, v, verbose=vb)
    except core.CaseTimeout:
        raise
    except BaseException as e0:  # noqa: B902
        # this worker process has already injected faults for earlier cases: a fault-free
        # run that raises now means an earlier fault left something behind in the process
        return dict(viol=[V("fault_free_run_raises_after_earlier_faults_in_this_process",
                            exc=repr(e0)[:200])], outcome="state_left_behind")
    d0 = digest(base)
    if case["part"] == "fresh":
        code = ("import sys; sys.path.insert(0, %r); sys.path.insert(0, %r);"
                "from lbv.props import c20; r,_=c20.run_once(%r,%r,%d,verbose=%r); print(c20.digest(r))"
                % (core.VERIF, core.REPO, name, jac, v, vb))
        out = subprocess.run([sys.executable, "-B", "-c", code], capture_output=True, text=True,
                             env=dict(__import__("os").environ, LBV_REPO=core.REPO))
        got = out.stdout.strip().splitlines()[-1] if out.stdout.strip() else out.stderr[-300:]
        viol = [] if got == d0 else [V("fresh_process_result_differs", fresh=got, here=d0)]
        return dict(viol=viol, outcome="fresh_process_baseline", nontrivial=None,
                    stats={"fresh_process_runs": 1})
    kind, idx = case["kind"], case["idx"]
    viol, keys, nex = [], [], 0
    only = case.get("exc")
    for E in EXC:
        if only is not None and E.__name__ != only:
            continue
        e = E(f"injected-{kind}-{idx}")
        sub = dict(case, exc=E.__name__)
        nex += 1
        try:
            run_once(name, jac, v, (kind, idx, e), verbose=vb)
            viol.append(V("exception_swallowed", _case=sub, type=E.__name__))
        except core.CaseTimeout:
            raise
        except BaseException as got:  # noqa: B902
            if got is not e:
                viol.append(V("exception_converted", _case=sub, raised=E.__name__,
                              received=type(got).__name__, text=str(got)[:200]))
        try:
            r2, _ = run_once(name, jac, v, verbose=vb)
            if digest(r2) != d0:
                viol.append(V("followup_run_differs_from_baseline", _case=sub))
        except core.CaseTimeout:
            raise
        except BaseException as e2:  # noqa: B902
            viol.append(V("followup_run_raises", _case=sub, exc=repr(e2)[:200]))
        if kind not in ("fun", "jac") or idx > 2:
            keys.append(f"{core.case_hash(case)}-{E.__name__}")
    return dict(viol=viol[:20], nontrivial=dict(keys=keys), n_exec=nex,
                outcomes={f"fault_in_{kind}": nex}, stats={"faults": nex})
