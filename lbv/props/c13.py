"""C13 - redefining the objective on the fly acts as a restart on the new objective (E3)."""
import copy
import itertools
from collections import deque

import numpy as np

from lbv import core, hist as H
from lbv.core import V
from lbv import families as F

PID = "C13"
LEVEL = "exploration"
DESIGN_REF = "DESIGN.md section 4 / C13"
CHUNK = 4
K = 8
TOL = 1e-8
EPS = 2.2e-16
RULE = ("base runs of C06 with objective f1 + w*f2 (8 iterations); update function in "
        "{identity} x stop settings {ftol 0/1e-5/1e-2} x {ftarget None/reachable}, and "
        "{switch at EVERY update call k in 0..7} x rewrite in {rescale x0.2, x5; re-weight "
        "w -> 0.2, 5, -3 recomputing every stored gradient; sign-flip/shift, or anti-curvature replacement, of the "
        "stored gradient of EVERY non-empty subset of the stored points (maxcor <= 3), "
        "returned in a new deque or in place in the deque that was passed}; oracle: "
        "identity => result, callback states and evaluation log bitwise equal to the run "
        "without update function; rewrite => every later pair is a bitwise difference of "
        "retained points and of the rewritten/later gradients (provenance search), has "
        "s.y > eps*y.y, the newest stored point is retained, and the next "
        "iterate equals (1e-8) the restart on the new objective from the callback state "
        "taken right after the rewrite; history letter: run interrupted after j in {1,2,3,5} "
        "iterations and restarted with an update function redefining the objective at its "
        "first call => next iterate equals (1e-8) the restart on the new objective from a "
        "checkpoint rebuilt by the harness with the rewritten gradients; non-trivial = rewrite applied with >= 1 stored "
        "pair; distinct = distinct case")
ASSUMPTIONS = [
    "the update function is called once before the first iteration (k=0) and once after "
    "every accepted step, with the stored points/gradients *before* the new point is added",
    "'up to rounding' = 1e-8 relative",
]
REWRITES = ("scale0.2", "scale5", "w0.2", "w5", "w-3")


def composite(p, case):
    r = np.array([0.37 * ((-1) ** i) + 0.11 * i for i in range(p.n)])
    if case.get("kind") == "convex":
        f2 = lambda x: 0.5 * float((x - r) @ (x - r))  # noqa: E731
        g2 = lambda x: x - r  # noqa: E731
    else:
        f2 = lambda x: float(np.sum(np.cos(x - r)))  # noqa: E731
        g2 = lambda x: -np.sin(x - r)  # noqa: E731
    return f2, g2


def cases(tier, variants):
    mcs = (1, 2, 3) if tier == "quick" else (1, 2, 3, 5)
    for b in H.base_runs(variants, maxcors=mcs):
        for ftol in (0.0, 1e-5, 1e-2):
            for tgt in (None, "reach"):
                yield dict(b, part="ident", ftol=ftol, tgt=tgt)
        # unrelated options that must not leak into the filtering of the history: the
        # finite-difference step `eps` (unused with a callable gradient)
        yield dict(b, part="ident", ftol=0.0, tgt=None, fdeps=0.5)
        # a non-default curvature threshold eps_SY must be honoured by the filter
        for k in (3, 5):
            for rw in ("scale5", "w5"):
                for es in (0.004, 0.02):
                    yield dict(b, part="rw", k=k, rw=rw, eps_sy=es)
        # the same with a gradient scaler in use (the target is then tested on f/s)
        yield dict(b, part="ident", ftol=0.0, tgt="reach", scaler=0.37)
        yield dict(b, part="ident", ftol=1e-5, tgt="reach", scaler=8.0)
        for k in range(0, K):
            for rw in REWRITES:
                yield dict(b, part="rw", k=k, rw=rw)
        # stop letter: gtol placed between the projected-gradient norms of the old and of
        # the new objective at the iterate of the rewrite (old one converged, new one not)
        for k in (2, 3, 5):
            yield dict(b, part="rw", k=k, rw="scale5", gstop=1)
        # the same redefinitions made through a mutable object passed in `args`
        for k in (1, 3, 5):
            for rw in ("scale5", "w0.2"):
                yield dict(b, part="rw", k=k, rw=rw, via_args=1)
        # history letter: the run is interrupted after j iterations and RESTARTED from
        # that state with an update function whose first (pre-loop) call redefines the
        # objective and rewrites the restored gradients
        for j in (1, 2, 3, 5):
            for rw in ("scale0.2", "scale5", "w0.2", "w5"):
                yield dict(b, part="rwres", j=j, rw=rw)
        # letter: a stop criterion (target placed between the objective values of
        # iterations k-1 and k) fires at the very iteration of the rewrite
        for k in range(2, K):
            yield dict(b, part="rw", k=k, rw="scale5", stop=True)
            if b["maxcor"] <= 3:
                npts = min(b["maxcor"] + 1, k + 1)
                for mask in range(1, 2 ** npts):
                    yield dict(b, part="flip" if mask % 3 else "anti", k=k, mask=mask, stop=True)
        if b["maxcor"] <= 3:
            for k in range(1, K):
                npts = min(b["maxcor"] + 1, k + 1) if k > 0 else 1
                for mask in range(1, 2 ** npts):
                    # letters: the rewritten sequence comes back in a new deque / in the
                    # very deque object that was passed (rewritten in place)
                    yield dict(b, part="flip", k=k, mask=mask, inplace=bool(mask % 2))
                    # 'anti': the selected stored gradients are replaced by the previous
                    # stored gradient minus a large multiple of the step (negative
                    # curvature towards the predecessor AND across it: the pair bridging
                    # a dropped point must be re-checked)
                    if npts >= 2 and mask % 2 == 0:
                        yield dict(b, part="anti", k=k, mask=mask, inplace=bool((mask >> 1) % 2))


def chain_ok(points, grads, sk, yk):
    """Provenance search: chronological subsequence of the retained points whose
    consecutive differences equal sk bitwise and whose gradient differences equal yk."""
    m, Kp = len(sk), len(points)
    if m == 0:
        return []
    for a0 in range(Kp):
        idx = [a0]
        for i in range(m):
            nx = None
            for j in range(idx[-1] + 1, Kp):
                if np.array_equal(points[j] - points[idx[-1]], sk[i]) and \
                        np.array_equal(grads[j] - grads[idx[-1]], yk[i]):
                    nx = j
                    break
            if nx is None:
                break
            idx.append(nx)
        if len(idx) == m + 1:
            return idx
    return None


def run(case):
    from lbfgsb import minimize_lbfgsb
    p = F.problem_of(case)
    f2, g2 = composite(p, case)
    part = case["part"]
    w = [1.0]
    sc = [1.0]

    def fun(x):
        return sc[0] * (p.f(x) + w[0] * f2(x))

    def jac(x):
        return sc[0] * (p.g(x) + w[0] * g2(x))
    kw = dict(bounds=p.bounds, maxcor=case["maxcor"], maxiter=K, gtol=1e-10, maxfun=100000)
    viol = []
    if part == "ident":
        tgt = None
        if case["tgt"] == "reach":
            # target placed between the objective values of iterations 2 and 3 (never on a
            # boundary): geometric midpoint of the reference trajectory
            vals = []
            minimize_lbfgsb(x0=p.x0.copy(), fun=fun, jac=jac, ftol=0.0,
                            callback=lambda x, s: vals.append(float(s.fun)) and False, **kw)
            if len(vals) >= 4:
                tgt = 0.5 * (vals[2] + vals[3])
        if case.get("scaler"):
            kw = dict(kw, gradient_scaler=(lambda *a_, _s=case["scaler"]: _s))
        if case.get("fdeps"):
            kw = dict(kw, eps=case["fdeps"])
        o1 = F.Obs(fun, jac, p.lb, p.ub)
        s1 = []
        a = minimize_lbfgsb(x0=p.x0.copy(), fun=o1.fun, jac=o1.jac, ftol=case["ftol"],
                            ftarget=tgt, callback=lambda x, s: s1.append(copy.deepcopy(s)) and False,
                            **kw)
        o2 = F.Obs(fun, jac, p.lb, p.ub)
        s2 = []
        ncall = [0]

        def ident(x, f0, f0_old, grad, X, G):
            ncall[0] += 1
            return f0, f0_old, grad, G
        b = minimize_lbfgsb(x0=p.x0.copy(), fun=o2.fun, jac=o2.jac, ftol=case["ftol"],
                            ftarget=tgt, update_fun_def=ident,
                            callback=lambda x, s: s2.append(copy.deepcopy(s)) and False, **kw)
        bad = H.same_state(a, b)
        if str(a.message) != str(b.message):
            bad.append("message")
        if bad:
            viol.append(V("identity_update_changes_result", fields=bad, msg_a=str(a.message),
                          msg_b=str(b.message)))
        if o1.calls != o2.calls:
            viol.append(V("identity_update_changes_evaluation_log", n1=len(o1.calls),
                          n2=len(o2.calls)))
        if len(s1) != len(s2) or any(H.same_state(u, v_) for u, v_ in zip(s1, s2)):
            viol.append(V("identity_update_changes_callback_states", n1=len(s1), n2=len(s2)))
        return dict(viol=viol, outcome=f"ident|{a.message}",
                    nontrivial=core.case_hash(case) if ncall[0] >= 2 else None)
    if part == "rwres":
        from scipy.optimize import LbfgsInvHessProduct
        j, rwn = case["j"], case["rw"]
        ck = minimize_lbfgsb(x0=p.x0.copy(), fun=fun, jac=jac, ftol=-10.0,
                             **dict(kw, maxiter=j))
        if not H.stopped_by_maxiter(ck, j) or ck.hess_inv.sk.shape[0] == 0:
            return dict(viol=[], outcome="rwres|no_restartable_state", stats={"skipped": 1})
        sk = np.array(ck.hess_inv.sk, copy=True)
        xk = np.array(ck.x, copy=True)
        Xs = [a for a in (xk - np.cumsum(sk[::-1], axis=0)[::-1])][-case["maxcor"]:]

        def switch():
            if rwn.startswith("scale"):
                sc[0] = float(rwn[5:])
            else:
                w[0] = float(rwn[1:])
        calls = [0]

        def upd0(x, f0, f0_old, grad, X, G):
            calls[0] += 1
            if calls[0] > 1:
                return f0, f0_old, grad, G
            switch()
            return fun(x), fun(X[-1]) if len(X) else fun(x), jac(x), deque(jac(a) for a in X)
        try:
            ra = minimize_lbfgsb(x0=xk.copy(), fun=fun, jac=jac, ftol=-10.0,
                                 checkpoint=copy.deepcopy(ck), update_fun_def=upd0,
                                 **dict(kw, maxiter=j + 1))
            # reference: restart on the new objective from a checkpoint holding the
            # rewritten history
            Gs = [jac(a) for a in Xs] + [jac(xk)]
            yk2 = np.diff(np.array(Gs), axis=0)
            sk2 = sk[-len(Xs):]
            if any(not float(a @ b_) > EPS * float(b_ @ b_) for a, b_ in zip(sk2, yk2)):
                return dict(viol=[], outcome="rwres|rewritten_pair_without_curvature",
                            stats={"skipped": 1})
            ck2 = copy.deepcopy(ck)
            ck2.fun, ck2.jac = fun(xk), jac(xk)
            ck2.hess_inv = LbfgsInvHessProduct(sk2, yk2)
            rb = minimize_lbfgsb(x0=xk.copy(), fun=fun, jac=jac, ftol=-10.0, checkpoint=ck2,
                                 **dict(kw, maxiter=j + 1))
        except core.CaseTimeout:
            raise
        except Exception as e:
            return dict(viol=[V("exception_after_rewrite_at_restart", exc=repr(e))],
                        outcome="exception")
        err = H.relerr(ra.x, rb.x)
        if err > TOL:
            viol.append(V("next_iterate_differs_from_restart_on_new_objective", err=err,
                          at="rewrite at the first update call of a restarted run",
                          npairs=int(sk2.shape[0])))
        moved = not np.array_equal(rb.x, xk)
        return dict(viol=viol, outcome=f"rwres|pairs{sk2.shape[0]}",
                    nontrivial=core.case_hash(case) if moved else None)
    # ----- rewrite at update call k
    k = case["k"]
    EPS_ = case.get("eps_sy", EPS)
    if case.get("eps_sy"):
        kw = dict(kw, eps_SY=case["eps_sy"])
    calls = [0]
    rec = {}
    glog = {}

    # letter: the objective's parameters live in a mutable object handed over through
    # `args`; the update function changes that object (instead of closure variables)
    P = dict(sc=1.0, w=1.0)
    via_args = bool(case.get("via_args"))

    def fun_run(x, Pa=None):
        if Pa is None:
            return fun(x)
        return Pa["sc"] * (p.f(x) + Pa["w"] * f2(x))

    def jac_logged(x, Pa=None):
        v = jac(x) if Pa is None else Pa["sc"] * (p.g(x) + Pa["w"] * g2(x))
        glog[np.asarray(x, float).tobytes()] = np.array(v, copy=True)
        return v

    def upd(x, f0, f0_old, grad, X, G):
        calls[0] += 1
        if calls[0] - 1 != k:
            return f0, f0_old, grad, G
        Xl = [np.array(a, copy=True) for a in X]
        if part == "rw":
            rwn = case["rw"]
            if rwn.startswith("scale"):
                sc[0] = P["sc"] = float(rwn[5:])
            else:
                w[0] = P["w"] = float(rwn[1:])
            Gl = [jac(a) for a in Xl]
            newf, newg = fun(x), jac(x)
            newf_old = fun(Xl[-1]) if Xl else newf
        else:
            Gl = [np.array(a, copy=True) for a in G]
            for i in range(len(Gl)):
                if (case["mask"] >> i) & 1:
                    j = len(Gl) - 1 - i                  # bit 0 = newest stored point
                    if part == "flip":
                        Gl[j] = -0.5 * Gl[j] + 0.1
                    elif j >= 1:
                        st = Xl[j] - Xl[j - 1]
                        lam = 10.0 * (np.linalg.norm(Gl[j] - Gl[j - 1]) + 1.0) / \
                            (np.linalg.norm(st) + 1e-300)
                        Gl[j] = Gl[j - 1] - lam * st
            newf, newf_old, newg = f0, f0_old, grad
        rec.update(X=Xl, G=[np.array(a, copy=True) for a in Gl], x=np.array(x, copy=True),
                   grad=np.array(newg, copy=True), nstored=len(Xl))
        if case.get("inplace"):
            for j in range(len(Gl)):
                G[j] = Gl[j]
            return newf, newf_old, newg, G
        return newf, newf_old, newg, deque(Gl)
    states = []
    tgt = None
    if case.get("stop"):
        vals = []
        minimize_lbfgsb(x0=p.x0.copy(), fun=fun, jac=jac, ftol=-10.0,
                        callback=lambda x, s_: vals.append(float(s_.fun)) and False, **kw)
        if len(vals) <= k or not vals[k - 1] - vals[k - 2] < 0:
            return dict(viol=[], outcome="no_target_slot", stats={"skipped": 1})
        tgt = 0.5 * (vals[k - 1] + vals[k - 2])
        if case.get("rw") == "scale5":
            tgt = None if vals[k - 1] <= 0 else 5.0 * tgt
            if tgt is None:
                return dict(viol=[], outcome="no_target_slot", stats={"skipped": 1})
    if case.get("gstop"):
        pgs = []
        minimize_lbfgsb(x0=p.x0.copy(), fun=fun, jac=jac, ftol=-10.0,
                        callback=lambda x, s_: pgs.append(
                            F.pgnorm(np.asarray(s_.x, float), np.asarray(s_.jac, float),
                                     p.lb, p.ub)) and False, **kw)
        # iterate k is the one in force at update call k; every earlier norm must exceed
        # the tolerance so that the run gets there
        if len(pgs) < k + 1 or pgs[k - 1] <= 0 or any(q <= 2.0 * pgs[k - 1] for q in pgs[:k - 1]):
            return dict(viol=[], outcome="no_gtol_slot", stats={"skipped": 1})
        g0n = F.pgnorm(np.clip(p.x0, p.lb, p.ub), jac(np.clip(p.x0, p.lb, p.ub)), p.lb, p.ub)
        if g0n <= 2.0 * pgs[k - 1]:
            return dict(viol=[], outcome="no_gtol_slot", stats={"skipped": 1})
        kw = dict(kw, gtol=2.0 * pgs[k - 1])
    try:
        res = minimize_lbfgsb(x0=p.x0.copy(), fun=fun_run, jac=jac_logged, ftol=-10.0,
                              ftarget=tgt, update_fun_def=upd,
                              callback=lambda x, s: states.append(copy.deepcopy(s)) and False,
                              **dict(kw, **({"args": (P,)} if via_args else {})))
    except core.CaseTimeout:
        raise
    except Exception as e:
        return dict(viol=[V("exception_after_rewrite", exc=repr(e))], outcome="exception")
    if case.get("stop"):
        if "X" not in rec:
            return dict(viol=[], outcome="rewrite_not_reached", stats={"skipped": 1})
        pts = rec["X"] + [rec["x"]]
        grs = rec["G"] + [rec["grad"]]
        sk, yk = res.hess_inv.sk, res.hess_inv.yk
        for a, b_ in zip(sk, yk):
            if sk.size and not float(a @ b_) > EPS * float(b_ @ b_):
                viol.append(V("result_pair_without_curvature_when_stopping_at_the_rewrite",
                              sy=float(a @ b_), message=str(res.message)))
                break
        if sk.size and chain_ok(pts, grs, sk, yk) is None:
            viol.append(V("result_pair_not_difference_of_rewritten_gradients_when_stopping",
                          message=str(res.message)))
        return dict(viol=viol, outcome=f"stop|{res.message}",
                    nontrivial=core.case_hash(case) if "TARGET" in str(res.message) else None)
    if case.get("gstop") and "X" in rec:
        # the rewritten objective has a projected gradient 5 x the old one, i.e. above the
        # tolerance: the run must go on exactly as a restart on the new objective does
        pg_new = F.pgnorm(np.asarray(res.x, float), np.asarray(jac(res.x), float), p.lb, p.ub)
        if "PROJECTED_GRADIENT" in str(res.message) and pg_new > kw["gtol"] * (1 + 1e-9):
            viol.append(V("run_stops_on_the_old_objective_gradient_after_the_rewrite",
                          message=str(res.message), nit=int(res.nit), pg_new_objective=pg_new,
                          gtol=kw["gtol"]))
            return dict(viol=viol, outcome="gstop|stopped")
    if "X" not in rec or len(states) < max(k, 1):
        return dict(viol=[], outcome="rewrite_not_reached", stats={"skipped": 1})
    # points/gradients that may legitimately appear in pairs from now on: the stored ones
    # (rewritten) + the point at the rewrite + every later iterate with the gradient the
    # user returned there
    pts = rec["X"] + [rec["x"]]
    grs = rec["G"] + [rec["grad"]]
    first = max(k, 1) - 1            # index of the first callback state after the rewrite
    for s in states[(first if k == 0 else first + 1):]:
        pts.append(np.array(s.x, copy=True))
        grs.append(glog.get(np.asarray(s.x, float).tobytes(), np.asarray(s.jac)))
    for si, s in enumerate(states[first:] + [res]):
        sk, yk = s.hess_inv.sk, s.hess_inv.yk
        for a, b in zip(sk, yk):
            if not float(a @ b) > EPS_ * float(b @ b):
                viol.append(V("pair_without_curvature_after_rewrite", state=first + si,
                              sy=float(a @ b), yy=float(b @ b), eps=EPS_))
                break
        ch = chain_ok(pts, grs, sk, yk)
        if ch is None:
            viol.append(V("pair_not_difference_of_rewritten_gradients", state=first + si,
                          npairs=int(sk.shape[0])))
            break
        if si == 0 and len(ch) and rec["nstored"] >= 1 and (rec["nstored"] - 1) not in ch \
                and k > 0:
            viol.append(V("newest_stored_point_dropped", chain=ch, nstored=rec["nstored"]))
    # restart equivalence: from the callback state right after the rewrite, on the new
    # objective, one more iteration
    if k >= 1 and len(states) > first + 1 and not viol:
        ck = copy.deepcopy(states[first])
        try:
            # run the restart up to the iteration number of the next reported state (an
            # iteration whose line search fails resets the memory, increments nit and is
            # not reported to the callback: the restart must go through it as well)
            r1 = minimize_lbfgsb(x0=np.array(ck.x, copy=True), fun=fun, jac=jac, ftol=-10.0,
                                 checkpoint=ck,
                                 **dict(kw, maxiter=int(states[first + 1].nit)))
            err = H.relerr(r1.x, states[first + 1].x)
            if err > TOL:
                viol.append(V("next_iterate_differs_from_restart_on_new_objective", err=err,
                              npairs=int(ck.hess_inv.sk.shape[0])))
        except core.CaseTimeout:
            raise
        except Exception as e:
            viol.append(V("restart_after_rewrite_raises", exc=repr(e)))
    nt = rec["nstored"] >= 2
    return dict(viol=viol[:6], outcome=f"{part}|pairs{states[first].hess_inv.sk.shape[0]}",
                nontrivial=core.case_hash(case) if nt else None)
