"""C04 - truthful termination report, budgets respected (E1 lattice + E3 restarts + E2)."""
import copy
import itertools

import numpy as np

from lbv import core, env as E
from lbv.core import V
from lbv import families as F

PID = "C04"
LEVEL = "exploration"
DESIGN_REF = "DESIGN.md section 4 / C04"
CHUNK = 16
RULE = ("complete product of 5 problems (boxed Rosenbrock, sum x+exp(-10x) from -50 and "
        "from -5, convex QP with an active bound, a QP with a degenerate bound under "
        "2-point differences) x maxiter {0,1,2,5} x maxfun {1,2,3,5,9,100} x maxls {1,2,20} "
        "x ftol {0,1e-3} x gtol {1e-8,1e3,callable} x ftarget {None,-1e9,reachable,"
        "callable} x callback {None,never stops,stops at 2}; the sub-lattice restarted from "
        "checkpoints taken at nit in {0,1,3} incl. maxiter below the checkpoint's nit and "
        "targets already met; all E2 runs with <=2 deviations; oracle: implication checks "
        "on the returned object against harness counters; non-trivial = a budget binds, or the "
        "message is not the projected-gradient one, or the run is a restart; distinct = "
        "distinct case")
ASSUMPTIONS = [
    "the seven documented termination strings are those of lbfgsb/main.py",
    "projected gradient recomputed by the harness from (result.x, result.jac, bounds)",
]
DOC = {"CONVERGENCE: NORM_OF_PROJECTED_GRADIENT_<=_PGTOL",
       "CONVERGENCE: REL_REDUCTION_OF_F_<=_FTOL", "CONVERGENCE: F_<=_TARGET",
       "STOP: TOTAL NO. of ITERATIONS REACHED LIMIT",
       "STOP: TOTAL NO. of f AND g EVALUATIONS EXCEEDS LIMIT", "STOP: USER CALLBACK",
       "ABNORMAL_TERMINATION_IN_LNSRCH"}
PROBS = ("rosen", "exp50", "exp5", "qp", "qpdeg")
GT = (1e-8, 1e3, "callable", "pg0")      # pg0: exactly the projected-gradient norm at x0
FT = (None, -1e9, "reach", "callable")
CB = (None, "never", 2)


def problem(name, v):
    """-> f, g, x0, lb, ub, reachable target, jac mode"""
    s = 0.01 * v
    if name == "rosen":
        from lbfgsb import rosenbrock, rosenbrock_grad
        return (rosenbrock, rosenbrock_grad, np.array([-1.2 + s, 1.0]),
                np.array([-2.0, -2.0]), np.array([2.0, 2.0]), 4.0, "callable")
    if name in ("exp50", "exp5"):
        f = lambda x: float(np.sum(x + np.exp(-10 * x)))  # noqa: E731
        g = lambda x: 1.0 - 10 * np.exp(-10 * x)  # noqa: E731
        x0 = np.array([-50.0 - v]) if name == "exp50" else np.array([-5.0 + s])
        return f, g, x0, np.array([-np.inf]), np.array([np.inf]), 1e3, "callable"
    H = np.array([[3.0, 1.0, 0.2], [1.0, 2.0, 0.1], [0.2, 0.1, 1.5]])
    xs = np.array([0.8, -0.4 + s, 2.5])
    f = lambda x: 0.5 * float((x - xs) @ (H @ (x - xs)))  # noqa: E731
    g = lambda x: H @ (x - xs)  # noqa: E731
    if name == "qp":
        return (f, g, np.array([2.0, -1.0, 0.0]), np.array([-1.0, -1.0, -1.0]),
                np.array([2.0, 0.5, 1.0]), 1.5, "callable")
    # one variable with lb == ub, gradient by forward differences
    return (f, g, np.array([2.0, -1.0, 0.3]), np.array([-1.0, -1.0, 0.3]),
            np.array([2.0, 0.5, 0.3]), 4.0, "2-point")


def cases(tier, variants):
    for v in variants:
        for pn in PROBS:
            for mi, mf, ml, ft, gi, ti, ci in itertools.product(
                    (0, 1, 2, 5), (1, 2, 3, 5, 9, 100), (1, 2, 20), (0.0, 1e-3), range(3),
                    range(4), range(3)):
                yield dict(part="lat", var=v, prob=pn, ck=None, maxiter=mi, maxfun=mf,
                           maxls=ml, ftol=ft, gtol=gi, ftarget=ti, cb=ci)
            # tolerance exactly equal to the projected-gradient norm of the start (boundary
            # of the comparison: the run must stop at once with the PGTOL message)
            for mi, mf, ti in itertools.product((0, 2), (1, 100), (0, 1)):
                yield dict(part="lat", var=v, prob=pn, ck=None, maxiter=mi, maxfun=mf,
                           maxls=20, ftol=0.0, gtol=3, ftarget=ti, cb=0)
            # target already met at x0 (float and callable), every gtol letter
            for mi, mf, gi, ti in itertools.product((0, 2), (1, 100), range(3),
                                                    ("now", "nowcall")):
                yield dict(part="lat", var=v, prob=pn, ck=None, maxiter=mi, maxfun=mf,
                           maxls=20, ftol=0.0, gtol=gi, ftarget=ti, cb=0)
            # objective redefined on the fly (rescaled by c at update call k) with a target
            # placed between the old and the new value at that iterate
            if pn in ("rosen", "qp"):
                for k in (1, 2, 3):
                    for c in (0.2, 5.0):
                        for ti in ("between", "belowboth"):
                            yield dict(part="upd", var=v, prob=pn, k=k, c=c, ftarget=ti)
                            # ... with ftarget and gtol given as callables (invoked once)
                            yield dict(part="upd", var=v, prob=pn, k=k, c=c, ftarget=ti,
                                       callables=1)
                    # pass-through update function, callable ftarget/gtol
                    yield dict(part="upd", var=v, prob=pn, k=k, c=1.0, ftarget="belowboth",
                               callables=1)
        for pn in PROBS:
            for ck in (0, 1, 3):
                for mi, mf, ml, ft, gi, ti, ci in itertools.product(
                        (0, 1, 2, 5), (1, 5, 100), (2, 20), (0.0, 1e-3), (0, 1, 2),
                        (0, 2, "now", "nowcall", 3), (0, 2)):
                    yield dict(part="lat", var=v, prob=pn, ck=ck, maxiter=mi, maxfun=mf,
                               maxls=ml, ftol=ft, gtol=gi, ftarget=ti, cb=ci)
    # checkpoints whose counters differ (produced with finite differences, or by an
    # early target stop: njev < nfev), restarted with a callable gradient and a budget a
    # few evaluations above the checkpoint's count
    for v in variants:
        for pn in ("rosen", "qp", "exp5"):
            for ck in (1, 3, 6):
                for dm in (1, 2, 3):
                    for ml in (3, 20):
                        yield dict(part="lat", var=v, prob=pn, ck=ck, ckjac="2-point",
                                   maxiter=ck + 3, maxfun=("ck+", dm), maxls=ml, ftol=0.0,
                                   gtol=0, ftarget=0, cb=0)
    if tier == "quick":
        yield from E.env_cases(6, 2, variants)
    else:
        yield from E.env_cases(8, 2, variants)


def term_oracle(res, kw, lb, ub, gtol_val, ftarget_val, cb_true, nit0, nfev0, callable_jac,
                scale=1.0):
    out = []
    m = str(res.message)
    if m not in DOC:
        out.append(("undocumented_message", dict(message=m)))
    x, jac = np.asarray(res.x, float), np.asarray(res.jac, float)
    if "PROJECTED" in m:
        pg = F.pgnorm(x, jac, lb, ub)
        if not pg <= gtol_val:
            out.append(("pgtol_message_but_pg_above", dict(pg=pg, gtol=gtol_val)))
    if "TARGET" in m:
        if ftarget_val is None or not float(res.fun) / scale <= ftarget_val:
            out.append(("target_message_but_fun_above", dict(fun=res.fun, ftarget=ftarget_val)))
    if "ITERATIONS" in m and not res.nit >= kw["maxiter"]:
        out.append(("iteration_limit_message_but_nit_below",
                    dict(nit=int(res.nit), maxiter=kw["maxiter"])))
    if "EVALUATIONS" in m and not res.nfev >= kw["maxfun"]:
        out.append(("evaluation_limit_message_but_nfev_below",
                    dict(nfev=int(res.nfev), maxfun=kw["maxfun"])))
    if "CALLBACK" in m and not cb_true:
        out.append(("callback_message_but_callback_never_true", {}))
    if bool(res.success) != (m != "ABNORMAL_TERMINATION_IN_LNSRCH"):
        out.append(("success_flag_wrong", dict(success=bool(res.success), message=m)))
    if res.nit > max(kw["maxiter"], nit0):
        out.append(("nit_above_budget", dict(nit=int(res.nit), maxiter=kw["maxiter"], nit0=nit0)))
    if callable_jac and res.nfev > max(kw["maxfun"], nfev0) + 1:
        out.append(("nfev_above_budget", dict(nfev=int(res.nfev), maxfun=kw["maxfun"],
                                              n0=nfev0)))
    return out


def run(case):
    from lbfgsb import minimize_lbfgsb
    if case["part"] == "env":
        try:
            res, its, env, kw = E.env_run(case)
        except np.linalg.LinAlgError:
            # a lying environment can hand over pairs whose middle matrix is numerically
            # indefinite: the factorisation fails.  Not this property's business (DESIGN.md
            # section 1, Exceptions): counted in the evidence, not judged.
            return dict(viol=[], outcome="LinAlgError_in_lying_environment",
                        stats={"env_linalg_error": 1})
        out = term_oracle(res, kw, env.lb, env.ub, kw["gtol"], None, False, 0, 1, True)
        lim = ("I" if res.nit >= kw["maxiter"] else "") + ("E" if res.nfev >= kw["maxfun"] else "")
        return dict(viol=[V(s, **d) for s, d in out], outcome=f"{res.message}|{lim}",
                    nontrivial=core.case_hash(case))
    if case["part"] == "upd":
        return run_upd(case)
    f, g, x0, lb, ub, reach, jmode = problem(case["prob"], case["var"])
    bounds = np.array([lb, ub]).T
    cnt = dict(f=0, g=0, cb=0, cbtrue=False, ft=0, gt=0)

    def ff(x):
        cnt["f"] += 1
        return f(x)

    def gg(x):
        cnt["g"] += 1
        return g(x)
    jac = gg if jmode == "callable" else jmode
    ck = None
    nit0, nfev0 = 0, 1
    if case["ck"] is not None:
        ck = minimize_lbfgsb(x0=x0.copy(), fun=f,
                             jac=case.get("ckjac") or (g if jmode == "callable" else jmode),
                             bounds=bounds, maxiter=case["ck"], ftol=0.0, gtol=1e-12, maxcor=3)
        ck = copy.deepcopy(ck)
        nit0, nfev0 = int(ck.nit), int(ck.nfev)
        x0 = np.array(ck.x, copy=True)
    gl = GT[case["gtol"]]
    gval = 1e-8 if gl == "callable" else gl
    if gl == "pg0":
        xs_ = np.clip(x0, lb, ub)
        g0_ = np.asarray(g(xs_), float) if jmode == "callable" else None
        if g0_ is None or not np.all(np.isfinite(g0_)):
            return dict(viol=[], outcome="pg0_not_applicable", stats={"skipped": 1})
        gval = gl = float(np.max(np.abs(np.clip(xs_ - g0_, lb, ub) - xs_)))

    def gcall():
        cnt["gt"] += 1
        return gval
    tl = case["ftarget"]
    tl = FT[tl] if isinstance(tl, int) else tl
    if tl in ("now", "nowcall"):
        tval = float(ck.fun) + 1.0 if ck is not None else 1e30      # met immediately
    elif tl in ("reach", "callable"):
        tval = reach
    else:
        tval = tl

    def tcall():
        cnt["ft"] += 1
        return tval
    cbl = CB[case["cb"]]

    def cb(x, st):
        cnt["cb"] += 1
        r = (cbl != "never") and cnt["cb"] >= cbl
        cnt["cbtrue"] = cnt["cbtrue"] or r
        return r
    mf = case["maxfun"]
    if isinstance(mf, (list, tuple)):
        mf = nfev0 + int(mf[1])
    kw = dict(maxiter=case["maxiter"], maxfun=mf, maxls=case["maxls"], ftol=case["ftol"])
    ck_before = copy.deepcopy(ck)
    try:
        res = minimize_lbfgsb(x0=x0, fun=ff, jac=jac, bounds=bounds, maxcor=3,
                              gtol=(gcall if gl == "callable" else gl),
                              ftarget=(tcall if tl in ("callable", "nowcall") else tval),
                              callback=(cb if cbl is not None else None), checkpoint=ck, **kw)
    except core.CaseTimeout:
        raise
    except Exception as e:
        return dict(viol=[V("exception", exc=repr(e))], outcome="exception")
    out = term_oracle(res, kw, lb, ub, gval, tval, cnt["cbtrue"], nit0, nfev0,
                      jmode == "callable")
    if gl == "callable" and cnt["gt"] != 1:
        out.append(("callable_gtol_called_n_times", dict(n=cnt["gt"])))
    if tl in ("callable", "nowcall") and cnt["ft"] != 1:
        out.append(("callable_ftarget_called_n_times", dict(n=cnt["ft"])))
    lim = ("I" if res.nit >= kw["maxiter"] else "") + ("E" if res.nfev >= kw["maxfun"] else "")
    cls = f"{res.message}|{lim}|{'restart' if ck is not None else 'fresh'}"
    nt = bool(lim) or "PROJECTED" not in str(res.message) or ck is not None
    return dict(viol=[V(s, **d) for s, d in out], outcome=cls,
                nontrivial=core.case_hash(case) if nt else None)


def run_upd(case):
    """Objective rescaled by c at update call k; a TARGET message must be true of the
    returned (redefined) value."""
    from lbfgsb import minimize_lbfgsb
    f, g, x0, lb, ub, reach, jmode = problem(case["prob"], case["var"])
    bounds = np.array([lb, ub]).T
    k, c = case["k"], case["c"]
    vals = []
    minimize_lbfgsb(x0=x0.copy(), fun=f, jac=g, bounds=bounds, maxcor=3, maxiter=8, ftol=-10.0,
                    gtol=1e-12, callback=lambda x, s: vals.append(float(s.fun)) and False)
    if len(vals) < k or not vals[k - 1] > 0:
        return dict(viol=[], outcome="no_slot", stats={"skipped": 1})
    v_old, v_new = vals[k - 1], c * vals[k - 1]
    tval = 0.5 * (v_old + v_new) if case["ftarget"] == "between" else 0.5 * min(v_old, v_new)
    sc = [1.0]
    ncall = [0]

    def upd(x, f0, f0_old, grad, X, G):
        ncall[0] += 1
        if ncall[0] - 1 == k:
            sc[0] = c
            return c * f0, c * f0_old, c * grad, type(G)(c * q for q in G)
        return f0, f0_old, grad, G
    kw = dict(maxiter=8, maxfun=1000)
    ncb = dict(ft=0, gt=0)

    def tcall():
        ncb["ft"] += 1
        return tval

    def gcall():
        ncb["gt"] += 1
        return 1e-12
    cb = bool(case.get("callables"))
    res = minimize_lbfgsb(x0=x0.copy(), fun=lambda x: sc[0] * f(x), jac=lambda x: sc[0] * g(x),
                          bounds=bounds, maxcor=3, ftol=-10.0, gtol=(gcall if cb else 1e-12),
                          ftarget=(tcall if cb else tval), update_fun_def=upd, **kw)
    out = term_oracle(res, kw, lb, ub, 1e-12, tval, False, 0, 1, True)
    if cb and ncb["ft"] != 1:
        out.append(("callable_ftarget_called_n_times", dict(n=ncb["ft"], nit=int(res.nit))))
    if cb and ncb["gt"] != 1:
        out.append(("callable_gtol_called_n_times", dict(n=ncb["gt"], nit=int(res.nit))))
    # the run must not go on after the (redefined) value met the target either
    return dict(viol=[V(s, **d) for s, d in out], outcome=f"upd|{res.message}",
                nontrivial=core.case_hash(case))
