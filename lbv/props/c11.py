"""C11 - line search: feasible trial points, within budget, strictly downhill result.

Part 'grid' (E6): real objectives x boxes x starts x projected-gradient directions x
iteration index x evaluation cap 1..20 x tolerance triples, complete product.
Part 'script' (E2 flavour): the objective *is the environment*: a base quadratic whose
answer at the j-th distinct trial point is replaced by a letter from
{much lower, slightly lower, equal, slightly higher, much higher} x
{steeper, shallow negative, zero, positive, large positive}; ALL scripts of length <= d.
"""
import itertools
from collections import Counter

import numpy as np

from lbv import core
from lbv.core import V
from lbv import families as F

PID = "C11"
LEVEL = "exploration"
DESIGN_REF = "DESIGN.md section 4 / C11"
CHUNK = 1
RULE = ("grid: 7 objectives (one returning +inf on part of the box) x 3 boxes x 5 starts x 4 projected-gradient directions x "
        "iteration index {0,3} x evaluation cap 1..20 x 2 tolerance triples (complete "
        "product, calls with a non-descent direction skipped), plus history letters {wrapper "
        "last evaluated another point, objective redefined since the start was evaluated, user "
        "callables working in place on their argument, wrapper scaling factor 2.5 / 0.4} "
        "for caps {1,2,3,5,20}; script: all 25^d answer "
        "scripts, d<=3 (quick) / d<=4 (thorough), x 3 boxes x iteration {0,3} x caps; every "
        "call runs the real line_search on a real ScalarFunction; oracle: every evaluated "
        "point inside the box (exact), evaluations <= cap, result None or a step in "
        "(0, alpha_max] with objective (harness-evaluated) strictly below the start value; "
        "non-trivial = the search evaluated >= 2 trial points or returned None; distinct = "
        "distinct call")
ASSUMPTIONS = [
    "alpha_max is recomputed by the harness; at iteration 0 the routine's contract caps "
    "the step at 1",
    "scripted environments are total functions (base quadratic outside the script)",
]
INF = np.inf

OBJ = {
    "quad": (lambda x: float(x @ x), lambda x: 2 * x),
    "rosen": (lambda x: float(100 * (x[1] - x[0] ** 2) ** 2 + (1 - x[0]) ** 2),
              lambda x: np.array([-400 * x[0] * (x[1] - x[0] ** 2) - 2 * (1 - x[0]),
                                  200 * (x[1] - x[0] ** 2)])),
    "osc": (lambda x: float(x @ x + 3 * np.sum(np.sin(7 * x))),
            lambda x: 2 * x + 21 * np.cos(7 * x)),
    "exp": (lambda x: float(np.sum(x + np.exp(-10 * x))), lambda x: 1 - 10 * np.exp(-10 * x)),
    "lin": (lambda x: float(np.sum(x * np.array([1.0, -0.3]))), lambda x: np.array([1.0, -0.3])),
    "scaled": (lambda x: float(1e6 * x[0] ** 2 + 1e-3 * x[1] ** 2),
               lambda x: np.array([2e6 * x[0], 2e-3 * x[1]])),
    # +inf beyond a line that cuts the box (a guard inside the user's code)
    "barrier": (lambda x: float(np.inf) if x[0] + x[1] > 1.2 else float((x[0] - 2.0) ** 2 + (x[1] - 1.5) ** 2),
                lambda x: np.array([2 * (x[0] - 2.0), 2 * (x[1] - 1.5)])),
}
SHIFT = [0.0, 0.013, -0.021, 0.037]


def boxes(v):
    s = SHIFT[v]
    return {"free": (np.array([-INF, -INF]), np.array([INF, INF])),
            "box": (np.array([-1.3 + s, -0.7 - s]), np.array([1.9 + s, 2.1 + 2 * s])),
            "half": (np.array([-1.3 + s, -INF]), np.array([INF, 2.1 + 2 * s])),
            # a bound at exactly 0.0 (used with the two 'hair above the bound' starts)
            "zero": (np.array([0.0, -0.7 - s]), np.array([INF, INF]))}


STARTS = [np.array([0.7, 1.1]), np.array([-1.3, 0.4]), np.array([1.9, 2.1]),
          np.array([0.1, -0.7]), np.array([-0.45, 0.3]),
          # within 1e-17 / 1e-300 of a zero lower bound: the direction component towards
          # the bound is minute but it is the one limiting the feasible step
          np.array([1e-17, 0.4]), np.array([1e-300, 1.1])]
TSTEPS = [0.01, 0.3, 1.0, 10.0]
TOLS = [(1e-3, 0.9, 0.1), (1e-4, 0.1, 1e-5)]

HCAPS = (1, 2, 3, 5, 20)     # caps under which the history letters are explored

FL = [-5.0, -1e-6, 0.0, 1e-6, 5.0]
GLF = [2.0, 0.1, 0.0, -0.5, -50.0]       # multiples of the start slope


def cases(tier, variants):
    for v in variants:
        for on in OBJ:
            for bn in ("free", "box", "half"):
                for si in range(5):
                    yield dict(part="grid", var=v, obj=on, box=bn, start=si)
            for si in (5, 6):
                yield dict(part="grid", var=v, obj=on, box="zero", start=si)
        dmax = 3 if tier == "quick" else 4
        for bx in ("free", "wide", "tight"):
            for it in (0, 3):
                for first in range(25):
                    yield dict(part="script", var=v, box=bx, it=it, first=first, dmax=dmax)


def amax_of(x0, d, lb, ub, it, user=1e8):
    if it == 0:
        return 1.0
    c = [user]
    for i in range(x0.size):
        if d[i] > 0 and np.isfinite(ub[i]):
            c.append((ub[i] - x0[i]) / d[i])
        elif d[i] < 0 and np.isfinite(lb[i]):
            c.append((lb[i] - x0[i]) / d[i])
    return min(c)


def one_call(f, g, x0, d, lb, ub, it, cap, tol, f_eval=None, hist="fresh"):
    """One real line_search call; returns (violations, info)."""
    from lbfgsb.linesearch import line_search
    from lbfgsb.scalar_function import ScalarFunction
    pts = []

    shift = [0.0]
    nuser = [0]

    def ff(x):
        xc = np.array(x, copy=True)
        pts.append(xc)
        nuser[0] += 1
        if hist == "scribble":
            x[...] = 1e3 + xc      # a user function that works in place on its argument
        return f(xc) + shift[0]

    def gg(x):
        xc = np.array(x, copy=True)
        pts.append(xc)
        if hist == "scribble":
            x[...] = -1e3 - xc
        return g(xc)
    sf = ScalarFunction(ff, x0, (), gg, None, (lb, ub))
    scale = 1.0
    if hist.startswith("scale"):
        # the wrapper carries a scaling factor (gradient scaler in use): the start value,
        # the slope and every trial value are those of scale*f
        scale = float(hist[5:])
        sf.scaling_factor = scale
    f0 = sf.fun(x0)
    g0 = sf.grad(x0)
    # history letter: what happened between the evaluation of the start and the search.
    # 'moved': the wrapper last evaluated another point (a failed search from the same
    # start is retried after the memory reset); 'redef': the objective was redefined
    # (shifted down by 10) and the caller hands over the start value of the new definition
    if hist == "moved":
        sf.fun(np.clip(x0 + 0.37 * min(1.0, amax_of(x0, d, lb, ub, 3)) * d, lb, ub))
    elif hist == "redef":
        shift[0] = -10.0
        f0 = f0 - 10.0
    n0 = sf.nfev
    nuser[0] = 0
    pts.clear()
    boxed = not (np.isinf(lb).any() or np.isinf(ub).any())
    x_in, d_in = x0.copy(), d.copy()
    a = line_search(x0, f0, g0, d, lb, ub, it, 1e8, boxed, sf, tol[0], tol[1], tol[2], cap,
                    -1, None)
    out = []
    bad = [p for p in pts if not ((p >= lb) & (p <= ub)).all()]      # (NaN-strict)
    if bad:
        out.append(("trial_point_outside_box", dict(point=bad[0], lb=lb, ub=ub,
                                                     n_outside=len(bad))))
    if max(sf.nfev - n0, nuser[0]) > cap:
        out.append(("over_budget", dict(evals=max(sf.nfev - n0, nuser[0]), cap=cap)))
    ntrial = len({p.tobytes() for p in pts})
    if a is None:
        return out, dict(res="none", ntrial=ntrial)
    am = amax_of(x_in, d_in, lb, ub, it)
    if not (0 < a <= am * (1 + 1e-12)):
        out.append(("step_out_of_range", dict(alpha=a, alpha_max=am)))
    xa = np.clip(x_in + a * d_in, lb, ub)
    fa = ((f_eval or f)(xa) + shift[0]) * scale
    if not fa < f0:
        out.append(("step_not_strictly_lower", dict(alpha=a, f_alpha=fa, f0=f0)))
    return out, dict(res="step", ntrial=ntrial)


def script_env(script, box, v):
    s = SHIFT[v]
    x0 = np.array([0.0 + s, 1.0])
    d = np.array([1.0, 0.5])
    c = x0 + 3 * d
    if box == "free":
        lb, ub = np.array([-INF, -INF]), np.array([INF, INF])
    elif box == "wide":
        lb, ub = np.array([-1.0, -1.0]), np.array([5.0 + s, 3.2])
    else:
        lb, ub = np.array([-1.0, -1.0]), np.array([0.7 + s, 1.35 + s / 3])
    table = {}
    order = []
    f_start = 0.5 * float((x0 - c) @ (x0 - c))
    g_start = x0 - c

    def ans(x):
        key = np.asarray(x, dtype=float).tobytes()
        if key not in table:
            if np.array_equal(x, x0):
                table[key] = (f_start, g_start.copy())
                return table[key]
            j = len(order)
            order.append(key)
            fx = 0.5 * float((x - c) @ (x - c))
            gx = x - c
            if j < len(script):
                fi, gi = script[j]
                fx = f_start + FL[fi]
                gx = GLF[gi] * g_start
            table[key] = (fx, np.array(gx, dtype=float))
        return table[key]
    return (lambda x: ans(x)[0]), (lambda x: ans(x)[1].copy()), x0, d, lb, ub


def run_script1(c):
    script = [tuple(z) for z in c["script"]]
    f, g, x0, d, lb, ub = script_env(script, c["box"], c["var"])
    return one_call(f, g, x0, d, lb, ub, c["it"], c["cap"], TOLS[c["tol"]])


def run(case):
    part = case["part"]
    if part == "script1":
        out, info = run_script1(case)
        return dict(viol=[V(s, **d) for s, d in out], outcome=info["res"],
                    nontrivial=core.case_hash(case))
    if part == "grid1":
        f, g = OBJ[case["obj"]]
        lb, ub = boxes(case["var"])[case["box"]]
        x0 = np.clip(STARTS[case["start"]] + (SHIFT[case["var"]] if case["start"] < 5 else 0.0), lb, ub)
        g0 = g(x0)
        d = np.clip(x0 - TSTEPS[case["ts"]] * g0, lb, ub) - x0
        out, info = one_call(f, g, x0, d, lb, ub, case["it"], case["cap"], TOLS[case["tol"]],
                             hist=case.get("hist", "fresh"))
        return dict(viol=[V(s, **d) for s, d in out], outcome=info["res"],
                    nontrivial=core.case_hash(case))
    viol, keys, outc, nex = [], [], Counter(), 0
    if part == "grid":
        f, g = OBJ[case["obj"]]
        lb, ub = boxes(case["var"])[case["box"]]
        x0 = np.clip(STARTS[case["start"]] + (SHIFT[case["var"]] if case["start"] < 5 else 0.0), lb, ub)
        g0 = g(x0)
        for ts in range(len(TSTEPS)):
            d = np.clip(x0 - TSTEPS[ts] * g0, lb, ub) - x0
            if not float(g0 @ d) < 0:
                outc["not_descent_skipped"] += 1
                continue
            for it in (0, 3):
                for cap in range(1, 21):
                    for tl, hs in [(t_, "fresh") for t_ in range(len(TOLS))] + \
                            ([(0, "moved"), (0, "redef"), (0, "scribble"), (0, "scale2.5"),
                              (0, "scale0.4")] if cap in HCAPS else []):
                        sub = dict(part="grid1", var=case["var"], obj=case["obj"],
                                   box=case["box"], start=case["start"], ts=ts, it=it,
                                   cap=cap, tol=tl, hist=hs)
                        out, info = one_call(f, g, x0.copy(), d.copy(), lb, ub, it, cap, TOLS[tl],
                                             hist=hs)
                        nex += 1
                        outc[f"{info['res']}_trials{min(info['ntrial'], 6)}"] += 1
                        if info["ntrial"] >= 2 or info["res"] == "none":
                            keys.append(core.case_hash(sub))
                        for s, dd in out:
                            viol.append(V(s, _case=sub, **dd))
    else:
        first = (case["first"] // 5, case["first"] % 5)
        letters = [(a, b) for a in range(5) for b in range(5)]
        for L in range(0, case["dmax"]):
            for tail in itertools.product(letters, repeat=L):
                script = [first] + list(tail)
                for cap in sorted({len(script), len(script) + 1, 20}):
                    for tl in (0, 1):
                        if tl == 1 and len(script) > 2:
                            continue
                        sub = dict(part="script1", var=case["var"], box=case["box"],
                                   it=case["it"], script=[list(z) for z in script], cap=cap,
                                   tol=tl)
                        out, info = run_script1(sub)
                        nex += 1
                        outc[f"{info['res']}_trials{min(info['ntrial'], 6)}"] += 1
                        if info["ntrial"] >= 2 or info["res"] == "none":
                            keys.append(core.case_hash(sub))
                        for s, dd in out:
                            viol.append(V(s, _case=sub, **dd))
    return dict(viol=viol[:40], nontrivial=dict(keys=keys), outcomes=dict(outc), n_exec=nex,
                stats={f"{part}_calls": nex})
