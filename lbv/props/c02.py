"""C02 - every evaluated, reported and returned point lies inside the box, exactly."""
import itertools

import numpy as np

from lbv import core, env as E
from lbv.core import V
from lbv import families as F

PID = "C02"
LEVEL = "exploration"
DESIGN_REF = "DESIGN.md section 4 / C02"
CHUNK = 16
RULE = ("(a) the complete C01 letter space for n<=2 (exact gradient), the n=2 letter space "
        "under each finite-difference mode and translated so that a bound is exactly 0.0 or with the box written as a list of (min,max) pairs with +-inf / None, with a second solve on a larger box running inside the callback, with an objective refusing complex arguments under cs, and 12 non-convex objectives x box {box, mixed} "
        "x start {face, vertex} x jac {callable,None,2-point,3-point,cs} x maxls {1,3,20} x "
        "maxfun {5,50,3000} x user letter {pure, scribble, samebuf}; (b) all environment "
        "runs with <= D deviations among the first K distinct points; (c) a linear objective "
        "over a grid of awkward floats (x_i, ub_i, slope_i) so that every line search ends "
        "at the maximum step; oracle: every array received by fun/jac (real part of cs "
        "stencils)/callback, state.x and result.x satisfy lb <= x <= ub with exact "
        "comparisons and components with lb == ub equal lb; non-trivial = some evaluated "
        "point touches a bound; distinct = distinct case")
ASSUMPTIONS = [
    "complex-step stencil points are judged on their real part",
    "an exception escaping the solver is counted, not judged here (C16/C20)",
    "objectives returning inf/nan at points of the box are part of the alphabet (barrier family)",
]
JACS = ("callable", None, "2-point", "3-point", "cs")
AWK = [0.1, 0.3, 0.7, 1.1, 1.3, 1.7, 2.3, 0.37, 1e-3, 123.456]


def cases(tier, variants):
    mcs = (3,) if tier == "quick" else (1, 3, 10)
    for n in (1, 2):
        yield from F.convex_cases(n, variants, mcs, extra=dict(part="e1", jac="callable"))
    fd_h = ("rot2",) if tier == "quick" else None
    fd_f = ("qp", "soft") if tier == "quick" else F.FAMS
    for jac in JACS[1:]:
        yield from F.convex_cases(2, variants, (3,), fams=fd_f, hesses=fd_h,
                                  extra=dict(part="e1", jac=jac))
    # letter: the start is given in single precision (interior starts only: a float32
    # start on a float64 bound is not feasible)
    for jac in ("callable", "2-point"):
        # (all numeric variants: whether a bound rounds inwards or outwards in single
        # precision depends on its value)
        for c in F.convex_cases(2, list(range(core.NVAR)), (3,), fams=("qp",),
                                hesses=("rot2",), extra=dict(part="e1", jac=jac,
                                                             x0dtype="f4")):
            if all(s_ == "in" for s_ in c["start"]):
                yield c
    for z in ("lo", "up", "deg"):
        for jac in ("callable", "2-point"):
            yield from F.convex_cases(2, variants, (3,), fams=("qp",), hesses=("rot2",),
                                      extra=dict(part="e1", jac=jac, zero=z))
    for rep in ("pairs", "none"):
        for jac in ("callable", "2-point"):
            yield from F.convex_cases(2, variants, (3,), fams=("qp",), hesses=("rot2",),
                                      extra=dict(part="e1", jac=jac, brep=rep))
    # letter: box sides far narrower than the finite-difference step (variables of
    # magnitude 1e-9): every stencil step has to be fitted into the bounds
    for jac in (None, "2-point", "3-point"):
        yield from F.convex_cases(2, list(range(core.NVAR)), (3,), fams=("qp",), hesses=("rot2",),
                                  extra=dict(part="e1", jac=jac, narrow=1e-9))
    # configuration letters: the packaged gradient scaler, and runs that stop before any
    # step is accepted (maxiter = 0, evaluation budget of one)
    for mi, mf in ((0, 3000), (60, 1), (60, 3000)):
        yield from F.convex_cases(2, variants, (3,), fams=("qp",), hesses=("rot2",),
                                  extra=dict(part="e1", jac="callable", scaler="packaged",
                                             maxiter=mi, maxfun=mf))
    # history letter: a second optimisation, on a ten times larger box, runs inside the
    # callback of the first one (two solves alive at the same time, different boxes)
    for jac in JACS:
        yield from F.convex_cases(2, variants, (3,), fams=("qp",), hesses=("rot2",),
                                  extra=dict(part="e1", jac=jac, nest=1))
    # user letter: an objective that refuses complex arguments (TypeError, as numpy ufuncs
    # without a complex loop do) under jac='cs'
    yield from F.convex_cases(2, variants, (3,), fams=("qp", "soft"), hesses=("rot2",),
                              extra=dict(part="e1", jac="cs", nocomplex=1))
    if tier == "thorough":
        yield from F.convex_cases(3, variants[:1], (2,), hesses=("rot2",),
                                  extra=dict(part="e1", jac="callable"))
    for v in variants:
        for fam in F.NONCONVEX:
            for n in ((2,) if tier == "quick" else (2, 3, 5)):
                for box in ("box", "mixed"):
                    for start in ("face", "vertex"):
                        for jac in JACS:
                            for mls in (1, 3, 20):
                                for mf in (5, 50, 3000):
                                    users = ("pure", "scribble", "samebuf") \
                                        if jac == "callable" else ("pure", "scribble")
                                    for u in users:
                                        yield dict(part="e1", kind="nonconvex", fam=fam, n=n,
                                                   box=box, start=start, var=v, jac=jac,
                                                   maxls=mls, maxfun=mf, user=u, maxcor=3)
    # objective letter: +inf on part of the box (a guard inside the user's code)
    for v in variants:
        for n in (1, 2, 3):
            for start in ("in", "face", "vertex"):
                for jac in ("callable", "2-point"):
                    for mls in (3, 20):
                        yield dict(part="e1", kind="nonconvex", fam="barrier", n=n, box="box",
                                   start=start, var=v, jac=jac, maxls=mls, maxfun=3000,
                                   user="pure", maxcor=3)
    if tier == "quick":
        yield from E.env_cases(6, 2, variants)
    else:
        yield from E.env_cases(8, 2, variants)
    for v in variants:
        for a, b, c in itertools.product(range(len(AWK)), repeat=3):
            yield dict(part="lin", var=v, ia=a, ib=b, ic=c)


def inbox(x, lb, ub):
    x = np.asarray(x, dtype=float)
    return bool(((x >= lb) & (x <= ub)).all() and not (x[lb == ub] != lb[lb == ub]).any())


def judge(obs, its, res, lb, ub):
    viol = []
    if obs.outside:
        k, idx, x = obs.outside[0]
        viol.append(V("evaluated_outside_box", kind=k, call=idx, x=x, lb=lb, ub=ub,
                      n_outside=len(obs.outside),
                      excess=float(np.max(np.maximum(lb - x, x - ub)))))
    for j, (x, sx) in enumerate(its):
        if not inbox(x, lb, ub) or not inbox(sx, lb, ub):
            viol.append(V("callback_point_outside_box", iteration=j + 1, x=x, state_x=sx))
            break
    if res is not None and not inbox(res.x, lb, ub):
        viol.append(V("returned_point_outside_box", x=res.x, lb=lb, ub=ub))
    return viol


def run(case):
    from lbfgsb import minimize_lbfgsb
    part = case["part"]
    if part == "env":
        try:
            res, its, env, kw = E.env_run(case)
        except np.linalg.LinAlgError:
            # a lying environment can hand over pairs whose middle matrix is numerically
            # indefinite: the factorisation fails.  Not this property's business (DESIGN.md
            # section 1, Exceptions): counted in the evidence, not judged.
            return dict(viol=[], outcome="LinAlgError_in_lying_environment",
                        stats={"env_linalg_error": 1})
        viol = []
        if env.outside:
            viol.append(V("evaluated_outside_box", n_outside=env.outside))
        for x, st in its:
            if not inbox(x, env.lb, env.ub):
                viol.append(V("callback_point_outside_box", x=x))
                break
        if not inbox(res.x, env.lb, env.ub):
            viol.append(V("returned_point_outside_box", x=res.x))
        return dict(viol=viol, outcome=f"{res.message}|nit{res.nit}",
                    nontrivial=core.case_hash(case))
    if part == "lin":
        # linear objective: every line search runs to the maximum step, so the accepted
        # point is x + ((ub - x) / d) * d, the 1-ulp case
        v = case["var"]
        a, b, c = AWK[case["ia"]], AWK[case["ib"]], AWK[case["ic"]]
        x0 = np.array([a * (1 + 0.1 * v), -b, 0.5 * a + b])
        ub = np.array([x0[0] + b, np.inf, x0[2] + 3 * c])
        lb = np.array([-np.inf, x0[1] - a * c, x0[2] - 1.0])
        w = np.array([-c, b, -a * b])
        obs = F.Obs(lambda x: float(w @ x), lambda x: w.copy(), lb, ub)
        its = []
        res = minimize_lbfgsb(x0=x0.copy(), fun=obs.fun, jac=obs.jac,
                              bounds=np.array([lb, ub]).T, maxiter=8, maxcor=2,
                              callback=lambda x, st: its.append((x.copy(), np.copy(st.x))) and False)
        viol = judge(obs, its, res, lb, ub)
        return dict(viol=viol, outcome=str(res.message), nontrivial=core.case_hash(case))
    p = F.problem_of(case)
    jac = case.get("jac", "callable")
    if jac == "cs" and not case.get("nocomplex"):
        try:
            p.f(p.x0 + 1e-20j)
        except Exception:
            return dict(viol=[], outcome="cs_unsupported_objective", stats={"skipped": 1})
    if case.get("nocomplex"):
        f_in = p.f

        def f_real_only(x):
            if np.iscomplexobj(x):
                raise TypeError("ufunc 'logaddexp' not supported for the input types")
            return f_in(x)
        p.f = f_real_only
    obs = F.Obs(p.f, p.g, p.lb, p.ub, user=case.get("user", "pure"))
    its = []
    inner = None
    if case.get("nest"):
        # the inner problem: same objective, box enlarged by 10 on every finite side
        lb2, ub2 = p.lb - 10.0, p.ub + 10.0
        inner = F.Obs(p.f, p.g, lb2, ub2)
        inner_done = []

        def run_inner():
            if inner_done:
                return
            inner_done.append(1)
            minimize_lbfgsb(x0=np.clip(p.x0 + 3.0, lb2, ub2), fun=inner.fun,
                            jac=inner.jac if jac == "callable" else jac,
                            bounds=np.array([lb2, ub2]).T, maxcor=3, maxiter=4)
    res = None
    exc = None
    kw = dict(maxcor=case.get("maxcor", 3), maxls=case.get("maxls", 20),
              maxfun=case.get("maxfun", 3000), maxiter=case.get("maxiter", 60), ftol=1e-14,
              gtol=1e-9)
    if case.get("scaler") == "packaged":
        from lbfgsb import get_gradient_projection_unit_scaling
        x0c_ = np.clip(p.x0, p.lb, p.ub)
        if F.pgnorm(x0c_, np.asarray(p.g(x0c_), float), p.lb, p.ub) > 0:
            kw["gradient_scaler"] = get_gradient_projection_unit_scaling
    x0_ = p.x0.astype(np.float32) if case.get("x0dtype") == "f4" else p.x0.copy()
    def cb(x, st):
        its.append((x.copy(), np.copy(st.x)))
        if inner is not None:
            run_inner()
        return False
    try:
        res = minimize_lbfgsb(x0=x0_, fun=obs.fun,
                              jac=obs.jac if jac == "callable" else jac, bounds=p.bounds,
                              callback=cb, **kw)
    except core.CaseTimeout:
        raise
    except Exception as e:
        exc = type(e).__name__
    # (an objective returning inf/nan at a point of the box does not entitle the solver to
    # leave the box: the points are judged all the same)
    viol = judge(obs, its, res, p.lb, p.ub)
    if inner is not None and inner.outside:
        viol.append(V("inner_run_evaluated_outside_its_box", x=inner.outside[0][2]))
    touched = any(np.any((q <= p.lb) | (q >= p.ub)) for q in obs.pts)
    return dict(viol=viol, outcome=("exception:" + exc) if exc else str(res.message),
                nontrivial=core.case_hash(case) if touched else None,
                stats={"exceptions": int(exc is not None), "points_checked": len(obs.pts)})
