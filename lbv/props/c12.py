"""C12 - on unconstrained problems the iterates are those of reference Algorithm 778
(SciPy's L-BFGS-B as reference model, compared on every evaluation point)."""
import numpy as np

from lbv import core
from lbv.core import V
from lbv import families as F

PID = "C12"
LEVEL = "exploration"
DESIGN_REF = "DESIGN.md section 4 / C12"
CHUNK = 4
RULE = ("(a) unconstrained {QP+quartic, QP+softplus (3 instances each), Rosenbrock} x n in "
        "{2,3,5,8} x 4 starts (absence of bounds written as None or as infinite pairs) x maxcor {1,3,8} (quick) / 1..8 (thorough), 12 iterations (and a slice with all variables rescaled to ~1e-6, and one with maxls in {1,2} in both implementations, compared up to the first step the port accepts without the strong Wolfe conditions), "
        "ftol=gtol=0: the two evaluation-point sequences (package vs "
        "scipy.optimize.minimize(method='L-BFGS-B')) must agree point by point (1e-6 "
        "relative) up to the first of: end of a sequence, round-off regime, or a DETECTED "
        "documented deviation (short first gradient, first-iteration trial at alpha>=1, "
        "accepted iterate that is not the last trial); (a') the same with ftol in {1e-3,1e-7} "
        "and the objective shifted by {-1e4,-3,0,1e4}: same points AND same number of "
        "evaluations (stop at the same place) unless a relative decrease of the reference "
        "run lies within 0.1% of ftol; (b) 1-D/2-D quadratics whose start "
        "places the first trial's decrease ratio on a grid straddling ftol_linesearch=1e-3 "
        "and its slope ratio on a grid straddling gtol_linesearch=0.9; (c) every convex "
        "boxed problem of the C01 letter space (n<=2): same optimal value (1e-9) whenever "
        "the reference's own answer is a KKT point; non-trivial = at least 6 evaluation "
        "points compared (a,b) / reference is KKT and some variable on a bound (c); "
        "distinct = distinct case")
ASSUMPTIONS = [
    "round-off regime = two successive evaluation points of the REFERENCE closer than 1e-9 "
    "(relative to the size of the variables) or with objective values agreeing to 1e-12",
    "SciPy's L-BFGS-B is the reference implementation of Algorithm 778",
    "'up to rounding' = 1e-6 relative on evaluation points (worst observed 1.8e-8)",
    "the reference itself may stall (observed on 24/6561 convex boxed problems): the final "
    "value clause is guarded by 'the reference result is a KKT point'",
]


def inst(kind, n, var):
    i = np.arange(n)
    A = np.sin(1.7 * i[:, None] + 0.9 * i[None, :] + var + 0.3)
    Hm = A @ A.T / n + np.eye(n)
    b = 2.0 * np.cos(i + var + 0.2)
    if kind == "quart":
        return (lambda x: 0.5 * x @ Hm @ x - b @ x + 0.3 * np.sum(x ** 4),
                lambda x: Hm @ x - b + 1.2 * x ** 3)
    if kind == "soft":
        return (lambda x: 0.5 * x @ Hm @ x - b @ x + np.sum(np.logaddexp(0, 2 * x)),
                lambda x: Hm @ x - b + 2.0 / (1.0 + np.exp(-2 * x)))
    if kind == "softw":
        # weakly convex QP (smallest curvature 0.1) + softplus terms with mixed weights:
        # quasi-Newton steps overshoot, so that searches limited to one trial fail far
        # from the solution
        Mw = np.sin(2.3 * i[:, None] + 1.1 * i[None, :] + 0.7 * var + 0.4) * 1.6
        Aw = Mw @ Mw.T / n + 0.1 * np.eye(n)
        bw = 3.0 * np.cos(1.9 * i + var)
        ww = 1.5 * np.sin(1.3 * i + 0.5 * var + 0.2)
        return (lambda x: 0.5 * x @ Aw @ x - bw @ x + np.sum(np.logaddexp(0, ww * x)),
                lambda x: Aw @ x - bw + ww / (1.0 + np.exp(-ww * x)))
    from lbfgsb import rosenbrock, rosenbrock_grad
    return rosenbrock, rosenbrock_grad


def start(n, sv, v):
    return 2.0 * np.sin(0.8 * np.arange(n) + 1.3 * sv + 0.5 + 0.21 * v)


def cases(tier, variants):
    mcs = (1, 3, 8) if tier == "quick" else range(1, 9)
    for v in variants:
        for kind in ("quart", "soft", "rosen"):
            for n in (2, 3, 5, 8):
                for var in ((0,) if kind == "rosen" else (0, 1, 2)):
                    for sv in range(4):
                        for m in mcs:
                            yield dict(part="trace", var=v, kind=kind, n=n, inst=var, sv=sv,
                                       maxcor=m)
        # letter: variables living on a small scale (x ~ 1e-6): f(x) = F(x / 1e-6)
        for kind in ("quart", "soft"):
            for n in (2, 5):
                for var in (0, 1):
                    for sv in (0, 3):
                        for m in (1, 3, 8):
                            yield dict(part="trace", var=v, kind=kind, n=n, inst=var, sv=sv,
                                       maxcor=m, xscale=1e-6)
        # letter: line searches limited to 1 or 2 trials in both implementations (failed
        # searches, memory resets, and what follows them)
        for kind in ("quart", "soft"):
            for n in (2, 5):
                for var in (0, 1, 2):
                    for sv in range(4):
                        for mls in (1, 2):
                            yield dict(part="trace", var=v, kind=kind, n=n, inst=var, sv=sv,
                                       maxcor=3, maxls=mls)
        for n in (3, 5, 8):
            for var in (0, 1, 2, 3):
                for sv in range(4):
                    for m in (1, 3, 8):
                        yield dict(part="trace", var=v, kind="softw", n=n, inst=var, sv=sv,
                                   maxcor=m, maxls=1)
        # start lattice for Rosenbrock (n = 2: 9 x 9 points of [-2, 2]^2, n = 3: 5^3): the
        # early line searches extrapolate (steps > 1) from some of them
        g9 = [-2.0 + 0.5 * i + 0.013 * (v + 1) for i in range(9)]
        for a_ in g9:
            for b_ in g9:
                yield dict(part="trace", var=v, kind="rosen", n=2, inst=0, sv=0, maxcor=3,
                           x0=[a_, b_ * 0.97])
        g5 = g9[::2]
        for a_ in g5:
            for b_ in g5:
                for c_ in g5:
                    yield dict(part="trace", var=v, kind="rosen", n=3, inst=0, sv=0, maxcor=3,
                               x0=[a_, b_ * 0.97, c_ * 1.03])
        for a in (4.0, 50.0):
            for rho in (3e-5, 3e-4, 5e-4, 9e-4, 1.1e-3, 2e-3, 1e-2, 0.1, 0.3):
                for n in (1, 2):
                    yield dict(part="straddle", var=v, a=a, x0=0.5 / (1 - rho), n=n, maxcor=3)
            for x0 in (0.5, 0.52, 0.53, 0.55, 8.0, 9.5, 9.9, 10.1, 10.5, 12.0):
                for n in (1, 2):
                    yield dict(part="straddle", var=v, a=a, x0=x0, n=n, maxcor=3)
        # stop-test letters: ftol > 0 and an objective shifted by a constant (values << -1,
        # around 0, >> 1): both implementations must also END at the same evaluation
        for kind in ("quart", "soft"):
            for n in (2, 5):
                for var in (0, 1, 2):
                    for sv in ((0, 3) if tier == "quick" else range(4)):
                        for off in (-1e4, -3.0, 0.0, 1e4):
                            for ftol in (1e-3, 1e-7):
                                yield dict(part="stop", var=v, kind=kind, n=n, inst=var,
                                           sv=sv, maxcor=3, off=off, ftol=ftol)
    mc = (5,) if tier == "quick" else (1, 5, 10)
    for n in (1, 2):
        yield from F.convex_cases(n, variants, mc, extra=dict(part="final"))


def trace_ours(f, g, x0, m, maxiter, bounds=None, samebuf=False, ftol=0.0, maxls=20):
    from lbfgsb import minimize_lbfgsb
    ev, its = [], []
    if samebuf:
        # hostile-but-legal user: the gradient callable fills and returns one work array
        g0_, buf = g, np.empty_like(np.asarray(x0, float))

        def g(x):
            buf[...] = g0_(x)
            return buf

    def ff(x):
        ev.append(np.array(x, copy=True))
        return f(x)
    res = minimize_lbfgsb(x0=x0.copy(), fun=ff, jac=g, maxcor=m, maxiter=maxiter, ftol=ftol,
                          maxls=maxls, gtol=0.0, maxfun=10 ** 6, bounds=bounds,
                          callback=lambda x, s: its.append((len(ev), np.array(x, copy=True))) and False)
    return ev, its, res


def trace_ref(f, g, x0, m, maxiter, ftol=0.0, its=None, maxls=20):
    from scipy.optimize import minimize
    ev = []

    def ff(x):
        ev.append(np.array(x, copy=True))
        return f(x)
    res = minimize(ff, x0.copy(), jac=g, method="L-BFGS-B",
                   callback=(None if its is None else (lambda xk: its.append(np.array(xk, copy=True)))),
                   options=dict(maxcor=m, maxiter=maxiter, ftol=ftol, gtol=0.0, maxfun=10 ** 6,
                                maxls=maxls))
    return ev, res


def wolfe_cut(io, x0, f, g):
    """number of evaluations made when the port first ACCEPTS a point that does not
    satisfy the strong Wolfe conditions (constants 1e-3, 0.9): only possible when the
    search was cut short (maxls letter); the reference rejects such a step altogether"""
    xp, prev_cnt = np.asarray(x0, float), 1
    for cnt, x in io:
        dx = x - xp
        g0d, g1d = float(g(xp) @ dx), float(g(x) @ dx)
        if not (f(x) <= f(xp) + 1e-3 * g0d and abs(g1d) <= 0.9 * abs(g0d)):
            return prev_cnt
        xp, prev_cnt = x, cnt
    return None


def compare(po, io, ps, x0, g0, unit=1.0, f=None, cut_at=None):
    """Point-by-point comparison.  A mismatch is a violation unless one of the port's three
    documented deviations *explains it at that position*.
    -> (number of points compared, mismatch detail or None, deviation label or None)"""
    if np.linalg.norm(g0) < 1:
        return 0, None, "short_first_gradient"
    first_end = io[0][0] if io else len(po)
    # (c) position from which "lowest trial accepted instead of the last" applies
    # (the accepted point is then evaluated a second time, right after the search: it is
    # seen as a point that already occurs earlier among this iteration's evaluations, or
    # as an iterate that is not the last evaluated point)
    lowest_at = None
    prev = 1
    for cnt, x in io:
        seg = po[prev:cnt]
        hits = [j for j, q in enumerate(seg) if np.array_equal(q, x)]
        if not hits or len(hits) > 1 or hits[0] != len(seg) - 1:
            lowest_at = prev + (hits[-1] if len(hits) > 1 else len(seg) - 1)
            break
        prev = cnt
    L = min(len(po), len(ps))
    k = 0
    while k < L:
        scale = unit + np.abs(ps[k]).max()
        # the round-off regime is entered once two successive evaluation points of either
        # sequence are closer than 1e-9 (relative to the size of the variables)
        # (judged on the REFERENCE sequence: a port that stalls must not be excused)
        if k >= 2 and np.abs(ps[k - 1] - ps[k - 2]).max() < 1e-9 * scale:
            return k, None, "roundoff_regime"
        # ... or two successive reference values agree to 1e-12: comparisons of objective
        # values are then decided by rounding
        if k >= 2 and f is not None:
            fa, fb = float(f(ps[k - 1])), float(f(ps[k - 2]))
            if abs(fa - fb) <= 1e-12 * max(abs(fa), abs(fb), 1.0):
                return k, None, "roundoff_regime"
        err = np.abs(po[k] - ps[k]).max() / scale
        if err > 1e-6:
            step = np.abs(ps[k] - ps[k - 1]).max() if k else 1.0
            if step < 1e-9 * scale:
                return k, None, "roundoff_regime"
            if lowest_at is not None and k >= lowest_at:
                return k, None, "lowest_trial_accepted"
            if cut_at is not None and k >= cut_at:
                return k, None, "search_cut_short_step_accepted"
            if k < first_end and \
                    np.linalg.norm(ps[k] - x0) / np.linalg.norm(g0) >= 1 - 1e-12:
                # the reference tries a step beyond the port's first-iteration cap
                return k, None, "first_iteration_step_cap"
            return k, dict(index=k, ours=po[k], reference=ps[k], err=float(err)), None
        k += 1
    return k, None, None


def run(case):
    part = case["part"]
    viol = []
    if part in ("trace", "straddle"):
        if part == "trace":
            f, g = inst(case["kind"], case["n"], case["inst"])
            x0 = start(case["n"], case["sv"], case["var"])
            if case.get("x0") is not None:
                x0 = np.array(case["x0"], dtype=float)
            if case.get("xscale"):
                sg, f_, g_ = case["xscale"], f, g
                f = lambda x: f_(x / sg)          # noqa: E731
                g = lambda x: g_(x / sg) / sg     # noqa: E731
                x0 = x0 * sg
        else:
            n, a = case["n"], case["a"]
            Hd = np.diag([a] + [a * 3] * (n - 1))
            f, g = (lambda x: 0.5 * x @ Hd @ x), (lambda x: Hd @ x)
            x0 = np.array([case["x0"] * (1 + 1e-3 * case["var"])] + [0.0] * (n - 1))
        # letter: "no bounds" written as bounds=None / as explicit infinite pairs
        bnds = None
        if part == "trace" and case["sv"] % 2 == 1:
            bnds = np.array([[-np.inf, np.inf]] * x0.size)
        po, io, ro = trace_ours(f, g, x0, case["maxcor"], 12 if part == "trace" else 6,
                                bounds=bnds, maxls=case.get("maxls", 20),
                                samebuf=(part == "trace" and case["sv"] == 2))
        ps, rs = trace_ref(f, g, x0, case["maxcor"], 12 if part == "trace" else 6,
                           maxls=case.get("maxls", 20))
        cut_at = wolfe_cut(io, x0, f, g) if case.get("maxls") else None
        k, mis, dev = compare(po, io, ps, x0, g(x0), unit=case.get("xscale", 1.0), f=f,
                              cut_at=cut_at)
        if mis:
            viol.append(V("evaluation_points_differ_from_reference", **mis))
        return dict(viol=viol, outcome=f"{part}|{dev or 'full'}",
                    nontrivial=core.case_hash(case) if k >= 6 else None,
                    stats={"points_compared": k})
    if part == "stop":
        f0_, g = inst(case["kind"], case["n"], case["inst"])
        off, ftol = case["off"], case["ftol"]
        f = lambda x: f0_(x) + off
        x0 = start(case["n"], case["sv"], case["var"])
        po, io, ro = trace_ours(f, g, x0, case["maxcor"], 60, ftol=ftol)
        rits = []
        ps, rs = trace_ref(f, g, x0, case["maxcor"], 60, ftol=ftol, its=rits)
        k, mis, dev = compare(po, io, ps, x0, g(x0), f=f)
        out = dev or "full"
        if mis:
            viol.append(V("evaluation_points_differ_from_reference", **mis))
        elif dev is None and len(po) != len(ps):
            # borderline: some relative decrease of the reference run within 0.1% of ftol
            fs = [f(x0)] + [f(x) for x in rits]
            rr = [(a - b) / max(abs(a), abs(b), 1.0) for a, b in zip(fs, fs[1:])]
            if any(abs(r - ftol) <= 1e-3 * ftol for r in rr):
                out = "borderline_stop_guarded"
            else:
                viol.append(V("run_ends_at_a_different_evaluation_than_reference",
                              ours=len(po), reference=len(ps), ours_msg=str(ro.message),
                              reference_msg=str(rs.message)))
        return dict(viol=viol, outcome=f"stop|{out}",
                    nontrivial=core.case_hash(case) if k >= 3 else None,
                    stats={"points_compared": k})
    # same optimal value on convex boxed problems
    from lbfgsb import minimize_lbfgsb
    from scipy.optimize import minimize
    p = F.convex_problem(case)
    bn = [(None if np.isinf(a) else a, None if np.isinf(b) else b) for a, b in zip(p.lb, p.ub)]
    a = minimize_lbfgsb(x0=p.x0.copy(), fun=p.f, jac=p.g, bounds=p.bounds, ftol=0.0, gtol=1e-8,
                        maxiter=500, maxfun=5000, maxcor=case["maxcor"])
    b = minimize(p.f, p.x0.copy(), jac=p.g, bounds=bn, method="L-BFGS-B",
                 options=dict(ftol=0.0, gtol=1e-8, maxiter=500, maxfun=5000,
                              maxcor=case["maxcor"]))
    xb = np.clip(np.asarray(b.x, float), p.lb, p.ub)
    pg = F.pgnorm(xb, p.g(xb), p.lb, p.ub)
    thr = max(1e-6, 30 * np.sqrt(np.finfo(float).eps * max(abs(p.f(xb)), abs(p.f(p.x0)), 1.0)
                                 * p.lip(xb, p.x0)))
    if not pg <= thr:
        return dict(viol=[], outcome="reference_not_kkt_guarded",
                    stats={"reference_stalls_guarded": 1})
    fa, fb = float(p.f(np.asarray(a.x, float))), float(p.f(xb))
    if abs(fa - fb) > 1e-9 * (1 + abs(fb)):
        viol.append(V("optimal_value_differs_from_reference", ours=fa, reference=fb,
                      msg=str(a.message)))
    onb = bool(np.any((xb <= p.lb) | (xb >= p.ub)))
    return dict(viol=viol, outcome="final|same_value",
                nontrivial=core.case_hash(case) if onb else None)
