"""C09 - subspace minimisation (engine E6 + interception)."""
from collections import Counter

import numpy as np

from lbv import comp, core, refs
from lbv.core import V
from lbv import families as F

PID = "C09"
LEVEL = "exploration"
DESIGN_REF = "DESIGN.md section 4 / C09"
CHUNK = 1
RULE = ("same complete enumeration as C08 (n<=3: box letter x position x gradient letter "
        "x memory contents; tilings to n=10; inputs intercepted at "
        "lbfgsb.main.subspace_minimization during real runs); the real routine is fed the "
        "*reference* Cauchy point and its c so that a Cauchy defect cannot mask or cause a "
        "verdict here; oracle: active variables unchanged exactly, free part equals the "
        "box-truncated Newton point of the dense model (1e-8), model not increased, "
        "descent direction; non-trivial = at least one variable free at the Cauchy point; "
        "distinct = distinct input; every free/active partition size is counted")
ASSUMPTIONS = [
    "dense BFGS recursion over the stored columns S,Y is the model (C10 checks that)",
    "tolerance 1e-8 relative on the returned point",
]


def cases(tier, variants):
    if tier == "quick":
        # cheap enough: the synthetic enumeration runs under ALL numeric variants on every
        # change (ties and 1-ulp events depend on the numeric table, see DESIGN.md)
        variants_syn = list(range(core.NVAR))
        yield from comp.syn_batches((1, 2), variants_syn)
        yield from comp.syn_batches((3,), variants, third=1)
        yield from comp.tiled_batches((5, 8), variants)
        yield from F.convex_cases(2, variants, (1, 3), fams=("qp", "soft"),
                                  hesses=("rot2",), extra=dict(part="icp"))
        # all-boxed n=3 problems: iterations in which one variable reaches a bound while
        # another leaves one (active set of the same size, different members)
        yield from F.convex_cases(3, variants, (3,), fams=("qp",), hesses=("rot4",),
                                  boxes=("box",), extra=dict(part="icp"))
    else:
        yield from F.convex_cases(3, variants, (1, 3), fams=("qp", "soft"),
                                  hesses=("rot2", "rot4"), boxes=("box",),
                                  extra=dict(part="icp"))
        yield from comp.syn_batches((1, 2, 3), variants)
        yield from comp.tiled_batches((4, 5, 6, 7, 8, 9, 10), variants)
        yield from F.convex_cases(2, variants, (1, 3, 10), extra=dict(part="icp"))
        yield from F.convex_cases(3, variants[:1], (2,), fams=("quart",),
                                  hesses=("rot4",), extra=dict(part="icp"))


def _one(c):
    x, g, lb, ub = comp.build_single(c)
    if F.pgnorm(x, g, lb, ub) == 0:
        return None
    mats = comp.mats_for(c["n"], c["ps"])
    B, _ = refs.dense_B(refs.pairs_of_mats(mats), x.size)
    xr, _, _ = refs.ref_gcp(x, g, lb, ub, B)
    out, nfree = comp.check_sub(x, g, lb, ub, comp.fresh_mats(mats), xr)
    return out, nfree


def run(case):
    part = case.get("part")
    if part == "syn1":
        r = _one(case)
        if r is None:
            return dict(viol=[], outcome="zero_pg")
        return dict(viol=[V(s, **d) for s, d in r[0]], outcome=f"free{r[1]}",
                    nontrivial=core.case_hash(case) if r[1] else None)
    if part == "syn":
        viol, keys, outc, nex = [], [], Counter(), 0
        for c in comp.expand(case):
            r = _one(c)
            if r is None:
                outc["zero_pg"] += 1
                continue
            nex += 1
            out, nfree = r
            outc[f"n{case['n']}_m{case['ps']}_free{nfree}"] += 1
            if nfree:
                keys.append(core.case_hash(c))
            for s, d in out:
                viol.append(V(s, _case=c, **d))
        return dict(viol=viol[:50], nontrivial=dict(keys=keys), outcomes=dict(outc),
                    n_exec=nex, stats={"synthetic_inputs": nex})
    # intercepted: the real run's own Cauchy point and c are what the routine receives
    from lbfgsb import minimize_lbfgsb
    p = F.convex_problem(case)
    found, cnt, pre = [], [0], [0]

    def on_call(a):
        x, xc, free_vars, Z, A, c, g, lb, ub, mats = a[:10]
        if (x < lb).any() or (x > ub).any() or (xc < lb).any() or (xc > ub).any():
            pre[0] += 1
            return
        Bd, _ = refs.dense_B(refs.pairs_of_mats(mats), x.size)
        # only meaningful when the run's Cauchy point is the model's Cauchy point
        xr, _, _ = refs.ref_gcp(x, g, lb, ub, Bd)
        if not comp.close(xc, xr, 1e-9, 1e-9):
            pre[0] += 1
            return
        cnt[0] += 1
        out, _ = comp.check_sub(x.copy(), g.copy(), lb, ub, comp.fresh_mats(mats), xc.copy())
        for s, d in out:
            found.append(V(s, x=x, g=g, **d))
        # token for on_return: the reference answer for what the solver actually asked
        xbr, _, _ = refs.ref_sub(x.copy(), xc.copy(), g.copy(), lb, ub, Bd)
        return xbr

    def on_return(a, ret, xbr):
        # the point the running solver really got (with the partition it really passed)
        if xbr is None:
            return
        got = np.asarray(ret, dtype=float).ravel()
        if not comp.close(got, xbr, 1e-8, 1e-9):
            found.append(V("sub_wrong_in_the_running_solver", got=got, ref=xbr))
    with comp.interceptor("subspace_minimization", on_call, on_return):
        minimize_lbfgsb(x0=p.x0.copy(), fun=p.f, jac=p.g, bounds=p.bounds,
                        maxcor=case["maxcor"], ftol=0.0, gtol=1e-6, maxiter=40)
    return dict(viol=found[:10], nontrivial=(core.case_hash(case) if cnt[0] else None),
                outcomes={"intercepted_run": 1}, n_exec=cnt[0],
                stats={"intercepted_inputs": cnt[0], "intercepted_precondition_skipped": pre[0]})
