"""C09 - subspace minimisation (engine E6 + interception)."""
from collections import Counter

import numpy as np

from lbv import comp, core, refs
from lbv.core import V
from lbv import families as F

PID = "C09"
LEVEL = "exploration"
DESIGN_REF = "DESIGN.md section 4 / C09"
CHUNK = 1
RULE = ("same complete enumeration as C08 (n<=3: box letter x position x gradient letter "
        "x memory contents; tilings to n=10; inputs intercepted at "
        "lbfgsb.main.subspace_minimization during real runs), plus 'twin' inputs: two identical variables whose bound - translated to {0, 0.003, -0.007, 1e-9} - lies at 5 fractions of the way from the Cauchy point to the Newton point (exact ties in the ratio test); the real routine is fed the "
        "*reference* Cauchy point and its c so that a Cauchy defect cannot mask or cause a "
        "verdict here; oracle: active variables unchanged exactly, free part equals the "
        "box-truncated Newton point of the dense model (1e-8), model not increased, "
        "descent direction; non-trivial = at least one variable free at the Cauchy point; "
        "distinct = distinct input; every free/active partition size is counted")
ASSUMPTIONS = [
    "dense BFGS recursion over the stored columns S,Y is the model (C10 checks that)",
    "tolerance 1e-8 relative on the returned point",
]


def cases(tier, variants):
    if tier == "quick":
        # cheap enough: the synthetic enumeration runs under ALL numeric variants on every
        # change (ties and 1-ulp events depend on the numeric table, see DESIGN.md)
        variants_syn = list(range(core.NVAR))
        yield from comp.syn_batches((1, 2), variants_syn)
        yield from comp.syn_batches((3,), variants, third=1)
        yield from comp.tiled_batches((5, 8), variants)
        yield from twin_cases(variants_syn)
        yield from F.convex_cases(2, variants, (1, 3), fams=("qp", "soft"),
                                  hesses=("rot2",), extra=dict(part="icp"))
        # all-boxed n=3 problems: iterations in which one variable reaches a bound while
        # another leaves one (active set of the same size, different members)
        yield from F.convex_cases(3, variants, (3,), fams=("qp",), hesses=("rot4",),
                                  boxes=("box",), extra=dict(part="icp"))
    else:
        yield from F.convex_cases(3, variants, (1, 3), fams=("qp", "soft"),
                                  hesses=("rot2", "rot4"), boxes=("box",),
                                  extra=dict(part="icp"))
        yield from comp.syn_batches((1, 2, 3), variants)
        yield from comp.tiled_batches((4, 5, 6, 7, 8, 9, 10), variants)
        yield from twin_cases(variants)
        yield from F.convex_cases(2, variants, (1, 3, 10), extra=dict(part="icp"))
        yield from F.convex_cases(3, variants[:1], (2,), fams=("quart",),
                                  hesses=("rot4",), extra=dict(part="icp"))


TW_A, TW_B, TW_T = (0.7, 1.9), (1.1, 2.6), (0.8, 1.6)
TW_STEPS = [[(-0.21, 0.13)], [(0.17, -0.08), (-0.26, 0.22)]]
TW_G = [(0.9, -1.3), (2.7, 0.6), (3.6, -1.9)]
TW_PHI = (0.1, 0.3, 0.5, 0.7, 0.9)
TW_TAU = (0.0, 0.003, -0.007, 1e-9)


def twin_cases(variants):
    """letter: two IDENTICAL variables (same curvature, start, bounds, gradient, stored
    steps), so that both reach their bound for exactly the same truncation factor (tie in
    the ratio test), the bound translated close to zero (rounding of xc + alpha*d visible)"""
    for v in variants:
        for ia in range(2):
            for ib in range(2):
                for it in range(2):
                    for isx in range(2):
                        yield dict(part="twin", var=v, ia=ia, ib=ib, it=it, isx=isx)


def twin_inputs(case):
    v = case["var"]
    a, b = TW_A[case["ia"]] * (1 + 0.013 * v), TW_B[case["ib"]]
    h = np.array([a, a, b])
    tw = TW_T[case["it"]]
    pts = [np.array([tw, tw, 0.4 - 0.1 * v])]
    for s1, s2 in TW_STEPS[case["isx"]]:
        pts.append(pts[-1] + np.array([s1, s1, s2]))
    pairs = [(q - p_, h * (q - p_)) for p_, q in zip(pts, pts[1:])]
    mats = refs.build_mats(pairs, 3)
    B, _ = refs.dense_B(pairs, 3)
    x = pts[-1].copy()
    wide_lb, wide_ub = np.full(3, -1e3), np.full(3, 1e3)
    for gt, g2 in TW_G:
        g = np.array([gt, gt, g2])
        xc, _, _ = refs.ref_gcp(x, g, wide_lb, wide_ub, B)
        xn, _, _ = refs.ref_sub(x, xc, g, wide_lb, wide_ub, B)
        if not (xn[0] < xc[0] < x[0]):
            continue
        for phi in TW_PHI:
            lbt = xc[0] + (phi + 0.011 * v) * (xn[0] - xc[0])
            for tau in TW_TAU:
                x2 = x.copy()
                x2[:2] += tau - lbt
                lb = np.array([tau, tau, -1e3])
                yield x2, g, lb, wide_ub.copy(), mats, B, dict(gl=[gt, g2], phi=phi, tau=tau)


def _one(c):
    x, g, lb, ub = comp.build_single(c)
    if F.pgnorm(x, g, lb, ub) == 0:
        return None
    mats = comp.mats_for(c["n"], c["ps"])
    B, _ = refs.dense_B(refs.pairs_of_mats(mats), x.size)
    xr, _, _ = refs.ref_gcp(x, g, lb, ub, B)
    out, nfree = comp.check_sub(x, g, lb, ub, comp.fresh_mats(mats), xr)
    return out, nfree


def run(case):
    part = case.get("part")
    if part == "twin":
        viol, keys, nex, outc = [], [], 0, Counter()
        for x, g, lb, ub, mats, B, tag in twin_inputs(case):
            xr, _, _ = refs.ref_gcp(x, g, lb, ub, B)
            out, nfree = comp.check_sub(x.copy(), g.copy(), lb, ub, comp.fresh_mats(mats), xr)
            nex += 1
            # both twins on the bound in the reference answer = a tie in the ratio test
            xbr, _, _ = refs.ref_sub(x, xr, g, lb, ub, B)
            tie = bool(abs(xbr[0] - lb[0]) <= 1e-12 and abs(xbr[1] - lb[1]) <= 1e-12)
            outc["twin_tie" if tie else "twin_no_tie"] += 1
            if tie:
                keys.append(f"{core.case_hash(case)}-{tag['gl']}-{tag['phi']}-{tag['tau']}")
            for s_, d in out:
                viol.append(V(s_, x=x, g=g, lb=lb, **dict(d, **tag)))
        return dict(viol=viol[:20], nontrivial=dict(keys=keys), outcomes=dict(outc), n_exec=nex,
                    stats={"twin_inputs": nex})
    if part == "syn1":
        r = _one(case)
        if r is None:
            return dict(viol=[], outcome="zero_pg")
        return dict(viol=[V(s, **d) for s, d in r[0]], outcome=f"free{r[1]}",
                    nontrivial=core.case_hash(case) if r[1] else None)
    if part == "syn":
        viol, keys, outc, nex = [], [], Counter(), 0
        for c in comp.expand(case):
            r = _one(c)
            if r is None:
                outc["zero_pg"] += 1
                continue
            nex += 1
            out, nfree = r
            outc[f"n{case['n']}_m{case['ps']}_free{nfree}"] += 1
            if nfree:
                keys.append(core.case_hash(c))
            for s, d in out:
                viol.append(V(s, _case=c, **d))
        return dict(viol=viol[:50], nontrivial=dict(keys=keys), outcomes=dict(outc),
                    n_exec=nex, stats={"synthetic_inputs": nex})
    # intercepted: the real run's own Cauchy point and c are what the routine receives
    from lbfgsb import minimize_lbfgsb
    p = F.convex_problem(case)
    found, cnt, pre = [], [0], [0]

    def on_call(a):
        x, xc, free_vars, Z, A, c, g, lb, ub, mats = a[:10]
        if (x < lb).any() or (x > ub).any() or (xc < lb).any() or (xc > ub).any():
            pre[0] += 1
            return
        Bd, _ = refs.dense_B(refs.pairs_of_mats(mats), x.size)
        # only meaningful when the run's Cauchy point is the model's Cauchy point
        xr, _, _ = refs.ref_gcp(x, g, lb, ub, Bd)
        if not comp.close(xc, xr, 1e-9, 1e-9):
            pre[0] += 1
            return
        cnt[0] += 1
        out, _ = comp.check_sub(x.copy(), g.copy(), lb, ub, comp.fresh_mats(mats), xc.copy())
        for s, d in out:
            found.append(V(s, x=x, g=g, **d))
        # token for on_return: the reference answer for what the solver actually asked
        xbr, _, _ = refs.ref_sub(x.copy(), xc.copy(), g.copy(), lb, ub, Bd)
        return xbr

    def on_return(a, ret, xbr):
        # the point the running solver really got (with the partition it really passed)
        if xbr is None:
            return
        got = np.asarray(ret, dtype=float).ravel()
        if not comp.close(got, xbr, 1e-8, 1e-9):
            found.append(V("sub_wrong_in_the_running_solver", got=got, ref=xbr))
    with comp.interceptor("subspace_minimization", on_call, on_return):
        minimize_lbfgsb(x0=p.x0.copy(), fun=p.f, jac=p.g, bounds=p.bounds,
                        maxcor=case["maxcor"], ftol=0.0, gtol=1e-6, maxiter=40)
    return dict(viol=found[:10], nontrivial=(core.case_hash(case) if cnt[0] else None),
                outcomes={"intercepted_run": 1}, n_exec=cnt[0],
                stats={"intercepted_inputs": cnt[0], "intercepted_precondition_skipped": pre[0]})
