"""C03 - the objective never increases from one accepted iterate to the next (E1 + E2)."""
import numpy as np

from lbv import core, env as E
from lbv.core import V
from lbv import families as F

PID = "C03"
LEVEL = "exploration"
DESIGN_REF = "DESIGN.md section 4 / C03"
CHUNK = 16
RULE = ("(a) complete product of {3 convex families, 12 non-convex/badly scaled/linear "
        "objectives} x n in {1,2,3} x box {free, box} x start {interior, face} x maxls "
        "{1,2,3,5,20} x maxfun {1..12,20,3000} x maxcor {1,3}, plus each problem under the packaged gradient scaler, with the objective shifted by 1e9 (maxls {2,3,4} x maxfun {3,5,3000}), and convex half-open-box problems whose objective is 1e10 outside the box; (b) all environment runs "
        "with <= D deviations among the first K distinct evaluation points (K=6,D<=2 quick; "
        "K=8,D<=3 thorough; 23 answer letters) under 2 budget configurations; oracle: "
        "f(x0) >= f(x_1) >= ... >= f(x_last) >= f(result.x) with f evaluated by the "
        "harness's own closure / the environment table, exact comparisons; result.x is x0, "
        "a reported iterate or an evaluated point; non-trivial = the run rejected a trial "
        "point or ended on a budget (more evaluations than iterations+1, or nit < distinct "
        "points-1); distinct = distinct case")
ASSUMPTIONS = [
    "the iterate passed as first callback argument is the accepted iterate",
    "environment answers are memoised per point: the environment is a function",
]
MAXLS = (1, 2, 3, 5, 20)
MAXFUN = tuple(range(1, 13)) + (20, 3000)


def e1_cases(variants):
    for v in variants:
        for n in (1, 2, 3):
            probs = []
            for fam in F.FAMS:
                for box, start in (("free", "in"), ("box", "in"), ("box", "ub"), ("box", "lb")):
                    probs.append(dict(kind="convex", fam=fam, hess=F.hess_names(n)[-1], n=n,
                                      boxes=[box] * n,
                                      start=[start if i == 0 else "in" for i in range(n)],
                                      minloc=F.tile(["below", "inside", "above"], n), var=v))
            for fam in F.NONCONVEX:
                if fam in ("rosenbrock", "beale") and n < 2:
                    continue
                for box in ("free", "box"):
                    for start in ("in", "face"):
                        if box == "free" and start == "face":
                            continue
                        probs.append(dict(kind="nonconvex", fam=fam, n=n, box=box, start=start,
                                          var=v))
            # objective undefined (nan) on part of the search ray; user limit on the step
            for nn in ((1, 2) if n == 1 else ()):
                for mls in (1, 2, 5, 20):
                    for st in ("in", "face"):
                        yield dict(kind="nonconvex", fam="xlogx", n=nn, box="box", start=st,
                                   var=v, part="e1", maxls=mls, maxfun=3000, maxcor=3)
            for pr in probs:
                if pr.get("kind") == "nonconvex":
                    for ms in (0.2, 0.05):
                        yield dict(pr, part="e1", maxls=20, maxfun=3000, maxcor=3, maxstep=ms)
            # configuration letter: the packaged projected-gradient unit scaler in use
            for pr in probs:
                for mc in (1, 3):
                    yield dict(pr, part="e1", maxls=20, maxfun=3000, maxcor=mc, scaler=1)
            # letter: objective values huge compared with their variation (f + 1e9): ties
            # and near-ties of trial values, searches cut by maxls / by the budget
            for pr in probs:
                for mls in (2, 3, 4):
                    for mf in (3, 5, 3000):
                        yield dict(pr, part="e1", maxls=mls, maxfun=mf, maxcor=3, offset=1e9)
            for pr in probs:
                for mls in MAXLS:
                    for mf in MAXFUN:
                        for mc in (1, 3):
                            yield dict(pr, part="e1", maxls=mls, maxfun=mf, maxcor=mc)


def cases(tier, variants):
    yield from e1_cases(variants)
    # letter: an objective that is only defined inside the box (1e10 outside - the box
    # protects its domain), half-open boxes, minimiser beyond a bound; under all numeric
    # variants (whether a step onto a bound overshoots by one ulp depends on the numbers)
    for c in F.convex_cases(2, list(range(core.NVAR)), (3,), fams=("qp", "soft"),
                            boxes=("lo", "up", "free")):
        if any(b != "free" for b in c["boxes"]):
            yield dict(c, part="e1", maxls=20, maxfun=3000, wall=1)
    if tier == "quick":
        yield from E.env_cases(6, 2, variants)
    else:
        yield from E.env_cases(8, 2, variants)
        yield from E.env_cases(8, 3, variants[:1], cfgs=(1,))


def monotone(vals):
    """index of the first step that is not 'non-increasing' (a nan value is not <=)"""
    for k in range(len(vals) - 1):
        if not (vals[k + 1] <= vals[k]):
            return k
    return None


def run(case):
    from lbfgsb import minimize_lbfgsb
    viol = []
    if case["part"] == "env":
        try:
            res, its, env, kw = E.env_run(case)
        except np.linalg.LinAlgError:
            # a lying environment can hand over pairs whose middle matrix is numerically
            # indefinite: the factorisation fails.  Not this property's business (DESIGN.md
            # section 1, Exceptions): counted in the evidence, not judged.
            return dict(viol=[], outcome="LinAlgError_in_lying_environment",
                        stats={"env_linalg_error": 1})
        xs = [env.x0] + [x for x, _ in its] + [np.asarray(res.x, dtype=float)]
        vals = [env.value(x) for x in xs]
        k = monotone(vals)
        if k is not None:
            viol.append(V("objective_increased", at=k, values=vals, message=str(res.message)))
        rb = np.asarray(res.x, dtype=float).tobytes()
        if rb not in {p for _, p in env.calls} and rb != env.x0.tobytes():
            viol.append(V("returned_point_never_evaluated", x=res.x))
        nontriv = (res.nfev > res.nit + 1)
        return dict(viol=viol, outcome=f"{res.message}|nit{res.nit}",
                    nontrivial=core.case_hash(case) if nontriv else None)
    p = F.problem_of(case)
    if case.get("offset") or case.get("wall"):
        f_in, C_, wall = p.f, float(case.get("offset", 0.0)), bool(case.get("wall"))
        lb_, ub_ = p.lb, p.ub

        def f_user(x):
            if wall and ((np.real(x) < lb_).any() or (np.real(x) > ub_).any()):
                return 1e10
            return f_in(x) + C_
        p.f = f_user
    obs = F.Obs(p.f, p.g, p.lb, p.ub)
    its = []

    def cb(x, st):
        its.append(np.array(x, copy=True))
        return False
    scaler = None
    if case.get("scaler"):
        from lbfgsb import get_gradient_projection_unit_scaling as scaler
        x0c_ = np.clip(p.x0, p.lb, p.ub)
        if F.pgnorm(x0c_, np.asarray(p.g(x0c_), float), p.lb, p.ub) == 0:
            return dict(viol=[], outcome="zero_pg_skipped", stats={"skipped": 1})
    try:
        res = minimize_lbfgsb(x0=p.x0.copy(), fun=obs.fun, jac=obs.jac, bounds=p.bounds,
                              maxcor=case["maxcor"], maxls=case["maxls"], maxfun=case["maxfun"],
                              maxiter=30, ftol=1e-12, gtol=1e-9, callback=cb,
                              gradient_scaler=scaler,
                              **({"max_steplength": case["maxstep"]} if case.get("maxstep") else {}))
    except core.CaseTimeout:
        raise
    except Exception as e:
        # not this property's business (see DESIGN.md section 1, Exceptions): the log
        # collected so far is still checked
        vals = [float(p.f(x)) for x in [p.x0] + its]
        k = monotone(vals)
        if k is not None:
            viol.append(V("objective_increased", at=k, values=vals, message="exception"))
        return dict(viol=viol, outcome="exception:" + type(e).__name__, stats={"exceptions": 1})
    x0c = np.clip(p.x0, p.lb, p.ub)
    xs = [x0c] + its + [np.asarray(res.x, dtype=float)]
    vals = [float(p.f(x)) for x in xs]
    k = monotone(vals)
    if k is not None:
        viol.append(V("objective_increased", at=k, values=vals[max(0, k - 1):k + 3],
                      message=str(res.message), nit=int(res.nit)))
    if scaler is None and not float(res.fun) <= vals[0]:
        viol.append(V("returned_value_above_start", fun=float(res.fun), f0=vals[0]))
    rb = np.asarray(res.x, dtype=float).tobytes()
    if rb not in {c[1] for c in obs.calls}:
        viol.append(V("returned_point_never_evaluated", x=res.x))
    nontriv = (res.nfev > res.nit + 1) or "LIMIT" in str(res.message) \
        or "ABNORMAL" in str(res.message)
    return dict(viol=viol, outcome=str(res.message),
                nontrivial=core.case_hash(case) if nontriv else None)
