"""C07 - the callback state is a faithful, immutable crash checkpoint (engine E3,
fault enumeration: every user-callable call index of every base run is a crash point)."""
import copy

import numpy as np

from lbv import core, hist as H
from lbv.core import V
from lbv import families as F

PID = "C07"
LEVEL = "fault_enumeration"
DESIGN_REF = "DESIGN.md section 4 / C07"
CHUNK = 1
K = 8
TOL = 1e-8
RULE = ("base runs of C06 (21 problems x maxcor {1,2,3,5}) with a retaining callback, 8 "
        "iterations; crash point = EVERY user-callable call index j of the base run (the "
        "run is killed there by an exception raised in the objective/gradient); at each "
        "callback k the state (deep copy) must equal bitwise the result of a run with "
        "maxiter=k; at every later crash point the live state object must still equal that "
        "copy, and a restart from the live object must give the uninterrupted run's next "
        "iterate (1e-8); the run with a never-stopping callback equals the run without "
        "callback bitwise incl. the evaluation log, and so does the run with a callback that writes into its xk argument / state.x / state.jac / the state's pairs before returning False; non-trivial = crash point at which a "
        "callback state with >= 1 pair exists; distinct = distinct (base run, crash index)")
ASSUMPTIONS = [
    "a crash is modelled by an exception escaping from the user's callable at call j; "
    "what survives is the latest object the callback received",
    "'same continuation' = next iterate within 1e-8 relative (as C06)",
]


class Crash(Exception):
    pass


def cases(tier, variants):
    mcs = (1, 2, 3, 5) if tier == "thorough" else (1, 3, 5)
    for b in H.base_runs(variants, maxcors=mcs):
        yield dict(b, part="base")
    # runs with failed line searches and memory resets (one trial per search on oscillating
    # objectives), and a user gradient that refills and returns one work array
    for v in variants:
        for fam in ("coswell", "oscil", "rastrigin"):
            for mls in (1, 2):
                for m in (1, 3):
                    yield dict(kind="nonconvex", fam=fam, n=3, box="box", start="in", var=v,
                               maxcor=m, label=f"{fam}3", part="base", maxls=mls)
    for b in H.base_runs(variants, maxcors=(3,), small=True):
        yield dict(b, part="base", user="samebuf")
    # the same, with an update function that really redefines the objective (rescales it
    # by 0.5 after iteration 3): states, stopped runs and restarts all use it
    for b in H.base_runs(variants, maxcors=(3,), small=(tier == "quick")):
        yield dict(b, part="base", upd="scale3")


def run(case):
    p = F.problem_of(case)
    viol, keys = [], []
    nex = 0

    def sub(j):
        return dict({k: v for k, v in case.items() if k != "part"}, part="base", crash=j)

    def fresh(fault=None, start_scaled=False):
        """fresh user callables (with their own redefinition state) for one run"""
        obs = F.Obs(p.f, p.g, p.lb, p.ub, fault=fault, user=case.get("user", "pure"))
        if case.get("upd") != "scale3":
            kwb = dict(fun=obs.fun, jac=obs.jac)
            if case.get("maxls"):
                kwb["maxls"] = case["maxls"]
            return obs, kwb
        sc = [0.5 if start_scaled else 1.0]
        ncall = [0]

        def fun(x):
            return sc[0] * obs.fun(x)

        def jac(x):
            return sc[0] * obs.jac(x)

        def upd(x, f0, f0_old, grad, X, G):
            ncall[0] += 1
            if ncall[0] - 1 == 3 and not start_scaled:
                sc[0] = 0.5
                return 0.5 * f0, 0.5 * f0_old, 0.5 * grad, type(G)(0.5 * g for g in G)
            return f0, f0_old, grad, G
        return obs, dict(fun=fun, jac=jac, update_fun_def=upd, ftol=-10.0)

    # uninterrupted reference run, with and without a callback
    obs0, kw0 = fresh()
    ref = H.solve(p, case, K, **kw0)
    states = []        # (live object, deep copy, x argument copy)

    def cb(x, st):
        states.append((st, copy.deepcopy(st), np.array(x, copy=True)))
        return False
    obs1, kw1 = fresh()
    withcb = H.solve(p, case, K, callback=cb, **kw1)
    nex += 2
    if H.same_state(withcb, ref) or obs0.calls != obs1.calls \
            or str(withcb.message) != str(ref.message):
        viol.append(V("callback_presence_alters_run", _case=sub(None),
                      fields=H.same_state(withcb, ref)))
    # letter: a callback that, after taking its copies, writes into what it was handed
    # (its xk argument, state.x, state.jac, the pairs of state.hess_inv) and returns False
    for what in ("xk", "state.x", "state.jac", "pairs"):
        def cbs(x, st, _w=what):
            if _w == "xk":
                x[...] = 0.5 * x + 1.0
            elif _w == "state.x":
                st.x[...] = 0.5 * st.x + 1.0
            elif _w == "state.jac":
                st.jac[...] = -2.0 * st.jac + 1.0
            else:
                st.hess_inv.sk[...] = 0.0
                st.hess_inv.yk[...] = 1.0
            return False
        obs2, kw2 = fresh()
        r2 = H.solve(p, case, K, callback=cbs, **kw2)
        nex += 1
        if H.same_state(r2, ref) or obs0.calls != obs2.calls \
                or str(r2.message) != str(ref.message):
            viol.append(V("callback_writing_into_its_arguments_alters_run", _case=sub(None),
                          written=what, fields=H.same_state(r2, ref)))
    # (i) state at callback k == result of a run with maxiter = k
    # An iteration whose line search fails resets the memory, increments nit and is not
    # reported to the callback; so the k of the i-th callback is found by matching its
    # iterate with the runs stopped at maxiter = k (first k after the previous one).
    iter_x = {}
    runs = {}
    for k in range(1, int(ref.nit) + 1):
        runs[k] = H.solve(p, case, k, **fresh()[1])
        nex += 1
        iter_x[k] = np.array(runs[k].x, copy=True)
    kprev = 0
    state_k = []
    for i, (live, snap, xarg) in enumerate(states):
        k = next((kk for kk in range(kprev + 1, int(ref.nit) + 1)
                  if np.array_equal(runs[kk].x, xarg)), None)
        if k is None:
            viol.append(V("callback_iterate_is_not_the_iterate_of_any_stopped_run",
                          _case=sub(None), callback=i + 1))
            state_k.append(None)
            continue
        kprev = k
        state_k.append(k)
        rk = runs[k]
        bad = H.same_state(snap, rk)
        if bad:
            viol.append(V("callback_state_differs_from_run_with_maxiter_k", _case=sub(None),
                          k=k, fields=bad, state_nit=int(snap.nit), run_nit=int(rk.nit)))
    # (ii) immutability after the callback returned (whole run completed)
    for i, (live, snap, xarg) in enumerate(states):
        bad = H.same_state(live, snap)
        if bad:
            viol.append(V("callback_state_mutated_after_return", _case=sub(None), k=i + 1,
                          fields=bad))
    # crash points: every call index of the run with callback
    ncalls = len(obs1.calls)
    only = case.get("crash")
    for j in ([only] if only is not None else range(ncalls)):
        held = []

        def cb2(x, st):
            held.append((st, copy.deepcopy(st)))
            return False

        def fault(kind, idx, _j=j):
            if obsc.ncall == _j:
                raise Crash()
            obsc.ncall += 1
        obsc, kwc = fresh(fault=fault)
        try:
            H.solve(p, case, K, callback=cb2, **kwc)
            viol.append(V("crash_not_propagated", _case=sub(j)))
            continue
        except Crash:
            pass
        nex += 1
        if not held:
            continue
        live, snap = held[-1]
        keys.append(f"{core.case_hash(case)}-{j}")
        bad = H.same_state(live, snap)
        if bad:
            viol.append(V("live_state_differs_from_snapshot_at_crash", _case=sub(j),
                          fields=bad, k=len(held)))
            continue
        k = state_k[len(held) - 1] if len(held) <= len(state_k) else None
        if k is not None and k == int(ref.nit) and k < K and k == int(snap.nit) and \
                len(held) == len(states):
            # the uninterrupted run ended by itself at this iteration: so must the restart
            try:
                r = H.solve(p, case, K, checkpoint=copy.deepcopy(snap),
                            **fresh(start_scaled=(k >= 3))[1])
                nex += 1
                if str(r.message) != str(ref.message) or H.relerr(r.x, ref.x) > TOL:
                    viol.append(V("restart_from_last_state_ends_differently", _case=sub(j), k=k,
                                  restart=(int(r.nit), str(r.message)),
                                  uninterrupted=(int(ref.nit), str(ref.message))))
            except core.CaseTimeout:
                raise
            except Exception as e:
                viol.append(V("restart_from_callback_state_raises", _case=sub(j), exc=repr(e)))
        if k is not None and k + 1 in iter_x and k == int(snap.nit):
            try:
                # after the redefinition (update call 3 = after iteration 3) the user
                # restarts on the redefined objective
                r = H.solve(p, case, k + 1, checkpoint=live,
                            **fresh(start_scaled=(k >= 3))[1])
                nex += 1
                err = H.relerr(r.x, iter_x[k + 1])
                if err > TOL:
                    viol.append(V("restart_from_callback_state_diverges", _case=sub(j), k=k,
                                  err=err))
                u = runs[k + 1]
                if int(r.nit) != int(u.nit) or str(r.message) != str(u.message):
                    viol.append(V("restart_from_callback_state_ends_differently", _case=sub(j),
                                  k=k, restart=(int(r.nit), str(r.message)),
                                  uninterrupted=(int(u.nit), str(u.message))))
                # the kept state must survive being used as a checkpoint, whatever the
                # options of the restart (here: with a gradient scaler)
                H.solve(p, case, k + 1, checkpoint=live, gradient_scaler=(lambda *a: 0.5),
                        **fresh(start_scaled=(k >= 3))[1])
                bad2 = H.same_state(live, snap)
                if bad2:
                    viol.append(V("callback_state_mutated_by_restarting_from_it", _case=sub(j),
                                  k=k, fields=bad2))
            except core.CaseTimeout:
                raise
            except Exception as e:
                viol.append(V("restart_from_callback_state_raises", _case=sub(j), exc=repr(e)))
    return dict(viol=viol[:30], nontrivial=dict(keys=keys), n_exec=nex,
                outcomes={f"callbacks{len(states)}": 1},
                stats={"crash_points": ncalls, "callback_states": len(states)})
