"""C10 - compact limited-memory matrix == dense BFGS of the stored pairs (engine E5).

Explicit-state model checking of the correction-pair memory.  Abstract state = tuple of
the letters of the stored pairs (the matrices are a function of the stored differences
only).  Model transition: an accepted letter is appended and the oldest dropped beyond
maxcor; a rejected letter leaves the state unchanged.  Every (state, op) edge is executed
on a *fresh real object* by replaying the shortest history reaching the state, the
implementation's resulting abstract state is read back (pairs identified against the
alphabet) and must equal the model's; the full oracle is evaluated after every step.
"""
import itertools
from collections import deque

import numpy as np

from lbv import comp, core, refs
from lbv.core import V
from lbv import families as F

PID = "C10"
LEVEL = "model_checking"
DESIGN_REF = "DESIGN.md section 4 / C10"
CHUNK = 1
RULE = ("BFS over all abstract memory states (tuples of <= maxcor accepted letters) x 8 "
        "candidate letters (4 positive-curvature, 4 rejected kinds: y=0, s.y<0, s.y=0, s.y=NaN), "
        "maxcor in 1..3, with is_force_update in {False, True}, every edge executed on the real update_lbfgs_matrices by replay; "
        "plus ALL letter sequences to depth maxcor+2 (quick) / 5 (thorough) compared with "
        "the canonical history of their model state; plus 40-step cyclic sequences for "
        "maxcor 1..10, n up to 12; plus every update intercepted during real runs (incl. runs with maxls in {1,2,3}: failed searches and memory resets), where the memory and matrices handed to the update must also be consistent BEFORE it and unchanged since the previous one; "
        "non-trivial = sequence containing an accepted and a rejected candidate or an "
        "overflow of the memory; distinct = distinct sequence")
ASSUMPTIONS = [
    "dense BFGS recursion (textbook formula) is the specification",
    "tolerance 1e-8 relative between compact and dense matrices",
]
EPS = 2.2e-16


def alphabet(v):
    """8 candidate moves (s, y) relative to the last retained point."""
    if v == 1:
        n = 2
        e = np.eye(n)
        A = {"a": (e[0] * 0.5, e[0] * 1.5), "b": ((e[0] + e[1]) * 0.3, np.array([0.5, 0.2])),
             "c": (np.array([0.1, -0.7]), np.array([0.7, -3.5])),
             "d": (np.array([1e-3, 2e3]), np.array([2e-3, 5e3])),
             "z": (e[1] * 0.4, np.zeros(n)), "n": (e[1] * 0.4, -e[1] * 0.8),
             "o": (e[0] * 0.3, e[1] * 0.5)}
    elif v == 2:
        n = 4
        e = np.eye(n)
        A = {"a": (e[3] * 0.25, e[3] * 2.0),
             "b": ((e[0] + e[1] + e[2]) * 0.3, np.array([0.45, 0.12, 0.3, 0.01])),
             "c": (np.array([0.1, -0.7, 0.2, 0.0]), np.array([0.7, -3.5, 1.1, 0.3])),
             "d": (np.array([0.2, -0.3, 0.6, -1.0]), np.array([0.5, -0.1, 3.0, -0.2])),
             "z": (e[2] * 0.4, np.zeros(n)), "n": (e[1] * 0.4, -e[1] * 0.8),
             "o": (e[0] * 0.3, e[1] * 0.5)}
    else:
        n = 3
        e = np.eye(n)
        sc = 1.0 if v == 0 else 1e-3
        A = {"a": (e[0] * 0.5, e[0] * 1.0), "b": ((e[0] + e[1]) * 0.3, np.array([0.45, 0.12, 0.0])),
             "c": (np.array([0.1, -0.7, 0.2]), np.array([0.7, -3.5, 1.1])),
             "d": (np.array([0.2, -0.3, 0.6]) * sc, np.array([0.5, -0.1, 3.0]) / sc * 1.0),
             "z": (e[2] * 0.4, np.zeros(n)), "n": (e[1] * 0.4, -e[1] * 0.8),
             "o": (e[0] * 0.3, e[1] * 0.5)}
    # non-finite candidate: a gradient with a NaN component (s.y is NaN, which does not
    # satisfy s.y > eps*y.y)
    e = np.eye(n)
    A["q"] = (e[0] * 0.2 + e[1] * 0.1, e[0] * 0.3 + e[1] * np.nan)
    return n, A


ACC = "abcd"
REJ = "znoq"
OPS = ACC + REJ


def cases(tier, variants):
    mcs = (1, 2, 3)
    for v in variants:
        for m in mcs:
            yield dict(part="bfs", var=v, maxcor=m)
            yield dict(part="bfs", var=v, maxcor=m, force=True)
            depth = m + 2 if tier == "quick" else 5
            for pre in itertools.product(OPS, repeat=2):
                yield dict(part="seq", var=v, maxcor=m, prefix="".join(pre), depth=depth)
        for m in range(1, 11):
            for n in ((1, 2, 5, 12) if tier == "thorough" else (1, 5, 12)):
                yield dict(part="long", var=v, maxcor=m, n=n)
                yield dict(part="long", var=v, maxcor=m, n=n, force=True)
    yield from F.convex_cases(2, variants, (1, 2, 5), fams=("soft",), hesses=("rot4",),
                              extra=dict(part="icp"))
    for v in variants:
        for fam in ("rosenbrock", "oscil", "styblinski_tang", "expsum", "rastrigin"):
            for m in (1, 3, 10):
                for nn in (2, 5):
                    yield dict(part="icp", kind="nonconvex", fam=fam, n=nn, box="box",
                               start="face", var=v, maxcor=m)
        for fam in ("rosenbrock", "styblinski_tang", "oscil"):
            for m in (3, 10):
                yield dict(part="icp", kind="nonconvex", fam=fam, n=3, box="box", start="in",
                           var=v, maxcor=m, ck_nit0=1)
                yield dict(part="icp", kind="nonconvex", fam=fam, n=3, box="box", start="in",
                           var=v, maxcor=m, updanti=1)
        # runs with failed line searches (memory resets) followed by further iterations
        for fam in ("expsum", "oscil", "coswell", "rastrigin"):
            for mls in (1, 2, 3):
                for m in (1, 3):
                    for nn in (1, 3):
                        yield dict(part="icp", kind="nonconvex", fam=fam, n=nn, box="box",
                                   start="in", var=v, maxcor=m, maxls=mls)


# --------------------------------------------------------------------------- oracle
def compact_B(mats, n):
    from lbfgsb.bfgsmats import bmv
    if not mats.use_factor:
        return mats.theta * np.eye(n)
    m2 = mats.W.shape[1]
    M = np.column_stack([bmv(mats.invMfactors, e) for e in np.eye(m2)])
    return mats.theta * np.eye(n) - mats.W @ M @ mats.W.T


def snapshot(X, G, mats):
    return ([a.copy() for a in X], [a.copy() for a in G],
            {k: np.copy(getattr(mats, k)) for k in ("S", "Y", "D", "L", "W")},
            (mats.invMfactors[0].copy(), mats.invMfactors[1].copy()), mats.theta)


def same_snapshot(a, b):
    if len(a[0]) != len(b[0]) or a[4] != b[4]:
        return False
    for u, w in zip(a[0] + a[1], b[0] + b[1]):
        if not np.array_equal(u, w):
            return False
    for k in a[2]:
        if not np.array_equal(a[2][k], b[2][k]):
            return False
    return np.array_equal(a[3][0], b[3][0]) and np.array_equal(a[3][1], b[3][1])


def check_state(X, G, mats, maxcor, expectX, eps=EPS):
    """Oracle on the memory after one update.  expectX = the harness's own list of the
    points that must be stored (bitwise)."""
    out = []
    n = X[0].size
    if len(X) != len(G):
        return [("len_mismatch", dict(lx=len(X), lg=len(G)))]
    if len(X) - 1 > maxcor:
        out.append(("too_many_pairs", dict(stored=len(X) - 1, maxcor=maxcor)))
    if len(X) != len(expectX) or any(not np.array_equal(a, b) for a, b in zip(X, expectX)):
        out.append(("wrong_points_stored", dict(stored=[a for a in X], expected=expectX)))
        return out
    pairs = [(X[i + 1] - X[i], G[i + 1] - G[i]) for i in range(len(X) - 1)]
    for j, (s, y) in enumerate(pairs):
        if not float(s @ y) > eps * float(y @ y):
            out.append(("stored_pair_without_curvature", dict(j=j, sy=float(s @ y))))
            return out
    if not pairs:
        return out
    B, theta = refs.dense_B(pairs, n)
    Bc = compact_B(mats, n)
    if not np.all(np.isfinite(Bc)):
        return out + [("matrix_not_finite", {})]
    sc = np.max(np.abs(B))
    if np.max(np.abs(B - Bc)) > 1e-8 * sc:
        out.append(("compact_differs_from_dense", dict(err=float(np.max(np.abs(B - Bc))),
                                                       scale=float(sc))))
    if abs(mats.theta - theta) > 1e-12 * abs(theta):
        out.append(("theta_wrong", dict(theta=mats.theta, ref=theta)))
    if np.max(np.abs(Bc - Bc.T)) > 1e-8 * sc:
        out.append(("not_symmetric", {}))
    if np.linalg.eigvalsh((Bc + Bc.T) / 2).min() <= 0:
        out.append(("not_positive_definite", dict(
            mineig=float(np.linalg.eigvalsh((Bc + Bc.T) / 2).min()))))
    s, y = pairs[-1]
    if np.max(np.abs(Bc @ s - y)) > 1e-8 * (np.max(np.abs(y)) + sc * np.max(np.abs(s))):
        out.append(("secant_equation_fails", dict(Bs=Bc @ s, y=y)))
    return out


class Mem:
    """A fresh real memory (deques + matrices object) driven through the real update."""

    def __init__(self, n, maxcor, x0=None, g0=None, force=False):
        from lbfgsb.bfgsmats import LBFGSB_MATRICES
        self.n, self.maxcor = n, maxcor
        # letter: is_force_update (the solver sets it when an update function is in use:
        # the matrices are rebuilt from the memory even when the candidate is rejected)
        self.force = force
        x = np.array([0.3, -0.2, 0.1, 0.7, -0.4, 0.9, 0.05, -0.6, 0.2, 0.8, -0.1, 0.5])[:n] \
            if x0 is None else x0
        g = np.array([1.0, 2.0, -0.5, 0.3, 0.9, -1.2, 0.4, 0.1, -0.7, 0.6, 1.5, -0.2])[:n] \
            if g0 is None else g0
        self.X = deque([x.copy()])
        self.G = deque([g.copy()])
        self.mats = LBFGSB_MATRICES(n)
        self.refX = [x.copy()]      # the harness's own list of accepted points
        self.refG = [g.copy()]

    def step(self, s, y):
        """Apply candidate (s, y) relative to the last retained point; returns oracle
        findings."""
        from lbfgsb.bfgsmats import update_lbfgs_matrices
        xk = self.X[-1] + s
        gk = self.G[-1] + y
        ss, yy = xk - self.X[-1], gk - self.G[-1]
        acc = float(ss @ yy) > EPS * float(yy @ yy)
        before = snapshot(self.X, self.G, self.mats)
        try:
            ret = update_lbfgs_matrices(xk.copy(), gk.copy(), self.X, self.G, self.maxcor,
                                        self.mats, self.force)
        except core.CaseTimeout:
            raise
        except Exception as e:
            return [("update_raised", dict(exc=repr(e), accepted_by_spec=acc))], acc
        out = []
        if ret is not self.mats:
            self.mats = ret
        if acc:
            self.refX = (self.refX + [xk])[-(self.maxcor + 1):]
            self.refG = (self.refG + [gk])[-(self.maxcor + 1):]
        else:
            if not self.force and not same_snapshot(before, snapshot(self.X, self.G, self.mats)):
                out.append(("rejected_candidate_changed_memory", {}))
            elif self.force and not (len(before[0]) == len(self.X) and all(
                    np.array_equal(u, w) for u, w in zip(before[0] + before[1],
                                                         list(self.X) + list(self.G)))):
                out.append(("rejected_candidate_changed_memory", dict(forced_rebuild=True)))
        out += check_state(self.X, self.G, self.mats, self.maxcor, self.refX)
        return out, acc


def abstract(mem, A):
    """Read back the implementation's abstract state: letters of the stored pairs."""
    st = []
    for i in range(len(mem.X) - 1):
        s, y = mem.X[i + 1] - mem.X[i], mem.G[i + 1] - mem.G[i]
        hit = [k for k in ACC if np.allclose(s, A[k][0], rtol=1e-9, atol=1e-12)
               and np.allclose(y, A[k][1], rtol=1e-9, atol=1e-12)]
        st.append(hit[0] if len(hit) == 1 else "?")
    return "".join(st)


def model_next(state, op, maxcor):
    return (state + op)[-maxcor:] if op in ACC else state


def replay(hist, n, A, maxcor, force=False):
    mem = Mem(n, maxcor, force=force)
    found = []
    for k, op in enumerate(hist):
        out, _ = mem.step(*A[op])
        for s, d in out:
            found.append((s, dict(d, step=k, op=op)))
    return mem, found


def long_letters(n):
    Hn = np.diag(1.0 + 0.5 * np.arange(n)) + 0.3
    L = []
    for k in range(6):
        s = np.cos(0.9 * k + 0.6 * np.arange(n) + 0.1) * (0.3 + 0.2 * k)
        L.append((s, Hn @ s))                       # accepted
    s = np.sin(0.4 * np.arange(n) + 1.0)
    L.append((s, np.zeros(n)))                      # y = 0
    L.append((s, -(Hn @ s)))                        # negative curvature
    L.append((s, np.where(np.arange(n) == n - 1, np.nan, Hn @ s)))   # NaN component
    return L


def run(case):
    part = case["part"]
    force = bool(case.get("force"))
    if part in ("bfs", "seq"):
        n, A = alphabet(case["var"])
        m = case["maxcor"]
    if part == "bfs":
        viol, states, trans, seen = [], 0, 0, {""}
        frontier = deque([""])
        while frontier:
            st = frontier.popleft()
            states += 1
            for op in OPS:
                hist = st + op
                mem, found = replay(hist, n, A, m, force)
                trans += 1
                for s, d in found:
                    viol.append(V(s, _case=dict(part="seq1", var=case["var"], maxcor=m,
                                                seq=hist, force=force), **d))
                impl = abstract(mem, A)
                want = model_next(st, op, m)
                if impl != want:
                    viol.append(V("model_state_mismatch",
                                  _case=dict(part="seq1", var=case["var"], maxcor=m, seq=hist,
                                             force=force),
                                  impl=impl, model=want))
                if want not in seen:
                    seen.add(want)
                    frontier.append(want)
        return dict(viol=viol[:30], nontrivial=dict(keys=[f"bfs-{case['var']}-{m}-{int(force)}-{s}" for s in seen]),
                    outcomes={f"bfs_maxcor{m}": 1}, n_exec=trans,
                    mc=dict(states=states, transitions=trans, validated=trans),
                    stats={"bfs_states": states, "bfs_transitions": trans})
    if part == "seq1":
        n, A = alphabet(case["var"])
        mem, found = replay(case["seq"], n, A, case["maxcor"], bool(case.get("force")))
        viol = [V(s, **d) for s, d in found]
        st = ""
        for op in case["seq"]:
            st = model_next(st, op, case["maxcor"])
        if abstract(mem, A) != st:
            viol.append(V("model_state_mismatch", impl=abstract(mem, A), model=st))
        return dict(viol=viol, outcome="seq1", nontrivial=case["seq"])
    if part == "seq":
        viol, keys, nex = [], [], 0
        pre = case["prefix"]
        for L in range(0, case["depth"] - 1):
            for tail in itertools.product(OPS, repeat=L):
                if L == 0 and len(pre) > case["depth"]:
                    continue
                hist = pre + "".join(tail)
                if len(hist) > case["depth"]:
                    continue
                mem, found = replay(hist, n, A, m)
                nex += 1
                sub = dict(part="seq1", var=case["var"], maxcor=m, seq=hist)
                for s, d in found:
                    viol.append(V(s, _case=sub, **d))
                st = ""
                for op in hist:
                    st = model_next(st, op, m)
                if abstract(mem, A) != st:
                    viol.append(V("model_state_mismatch", _case=sub, impl=abstract(mem, A),
                                  model=st))
                else:
                    # canonicalisation argument: the state reached by this history has the
                    # same matrices as the one reached by the canonical (shortest) history
                    can, _ = replay(st, n, A, m)
                    if st and np.max(np.abs(compact_B(can.mats, n) - compact_B(mem.mats, n))) > \
                            1e-8 * np.max(np.abs(compact_B(can.mats, n))):
                        viol.append(V("history_dependent_matrices", _case=sub, state=st))
                nacc = sum(1 for o in hist if o in ACC)
                if (nacc and nacc < len(hist)) or nacc > m:
                    keys.append(f"{case['var']}-{m}-{hist}")
        return dict(viol=viol[:30], nontrivial=dict(keys=keys), n_exec=nex,
                    outcomes={f"seq_maxcor{m}": nex}, stats={"sequences": nex})
    if part == "long":
        n, m = case["n"], case["maxcor"]
        L = long_letters(n)
        mem = Mem(n, m, force=force)
        viol = []
        order = [(i * (case["var"] + 2) + i // 3) % len(L) for i in range(40)]
        for k, j in enumerate(order):
            out, _ = mem.step(*L[j])
            for s, d in out:
                viol.append(V(s, step=k, letter=j, **d))
        return dict(viol=viol[:10], nontrivial=core.case_hash(case), outcome="long40",
                    n_exec=1, stats={"long_updates": 40})
    # intercepted updates of real runs
    from lbfgsb import minimize_lbfgsb
    import lbfgsb.main as M
    p = F.problem_of(case)
    found, cnt = [], [0, 0]
    orig = M.update_lbfgs_matrices

    after = [None]
    last_ret = [None]
    x_start = np.clip(p.x0, p.lb, p.ub)      # (replaced by the checkpoint's point on a restart)

    def wrapped(xk, gk, X, G, maxcor, mats, is_force_update, eps=EPS, **kw):
        # between two updates nothing but the update routine may touch the memory (a
        # rejected candidate leaves it untouched - also in the caller)
        if after[0] is not None and len(X) and not (
                len(after[0][0]) == len(X) and
                all(np.array_equal(a, b) for a, b in zip(after[0][0], X)) and
                all(np.array_equal(a, b) for a, b in zip(after[0][1], G))):
            if len(after[0][0]) == len(X):    # (a memory reset empties it: not judged here)
                found.append(V("memory_modified_between_two_updates", call=cnt[0] + 1,
                               previous_accepted=after[0][2]))
        # what the solver has been using during this iteration: the matrices it hands
        # over must be the BFGS matrix of the pairs it hands over (also right after a
        # memory reset)
        # (not at the first call of a run: a restart hands over the restored memory with
        # the initial matrices, which this very call builds; not under a forced rebuild:
        # the gradients may just have been rewritten by the update function)
        rebuild_call = cnt[0] == 0 and np.array_equal(xk, x_start)
        if not is_force_update and not rebuild_call:
            for s_, d_ in check_state(X, G, mats, maxcor, [a.copy() for a in X], eps):
                found.append(V("before_update_" + s_, call=cnt[0] + 1, **d_))
        # ... and the matrices object handed over is the one the previous update returned,
        # unless the memory was emptied meanwhile (then: the initial matrices)
        if last_ret[0] is not None and mats is not last_ret[0] and \
                (len(X) != 1 or mats.use_factor):
            found.append(V("matrices_handed_over_are_not_those_the_previous_update_returned",
                           call=cnt[0] + 1, points_in_memory=len(X)))
        if len(X) == 1 and mats.use_factor and not is_force_update and not rebuild_call:
            found.append(V("before_update_matrices_not_initial_with_an_empty_memory",
                           call=cnt[0] + 1))
        ss, yy = xk - X[-1], gk - G[-1]
        acc = float(ss @ yy) > eps * float(yy @ yy)
        before = snapshot(X, G, mats)
        expect = ([a.copy() for a in X] + [xk.copy()])[-(maxcor + 1):] if acc \
            else [a.copy() for a in X]
        ret = orig(xk, gk, X, G, maxcor, mats, is_force_update, eps=eps, **kw)
        cnt[0] += 1
        cnt[1] += (not acc)
        if not acc and not is_force_update and not same_snapshot(before, snapshot(X, G, ret)):
            found.append(V("rejected_candidate_changed_memory", call=cnt[0]))
        for s, d in check_state(X, G, ret, maxcor, expect, eps):
            found.append(V(s, call=cnt[0], **d))
        after[0] = ([a.copy() for a in X], [a.copy() for a in G], bool(acc))
        last_ret[0] = ret
        return ret
    extra = {}
    if case.get("ck_nit0"):
        # restart from a checkpoint whose iteration counter the user has reset to 0 (new
        # maxiter budget) while it still carries its pairs
        ck = minimize_lbfgsb(x0=p.x0.copy(), fun=p.f, jac=p.g, bounds=p.bounds,
                             maxcor=case["maxcor"], ftol=0.0, gtol=1e-7, maxiter=4)
        ck.nit = 0
        extra["checkpoint"] = ck
        x_start = np.array(ck.x, copy=True)
    if case.get("updanti"):
        # update function that, at its call number 3, replaces every stored gradient so
        # that all stored pairs lose their curvature (and changes nothing else)
        ncall = [0]

        def upd(x, f0, f0_old, grad, X, G):
            ncall[0] += 1
            if ncall[0] - 1 != 3 or len(X) < 1:
                return f0, f0_old, grad, G
            Gn = [np.array(grad, copy=True) + 10.0 * (np.asarray(x) - np.asarray(xx)) * (1 + j)
                  for j, xx in enumerate(X)]
            return f0, f0_old, grad, type(G)(Gn)
        extra["update_fun_def"] = upd
        extra["ftol"] = -10.0
    M.update_lbfgs_matrices = wrapped
    try:
        minimize_lbfgsb(x0=x_start, fun=p.f, jac=p.g, bounds=p.bounds,
                        maxcor=case["maxcor"], gtol=1e-7, maxiter=40,
                        **dict(dict(ftol=0.0), **extra),
                        **({"maxls": case["maxls"]} if case.get("maxls") else {}))
    finally:
        M.update_lbfgs_matrices = orig
    return dict(viol=found[:10], nontrivial=(core.case_hash(case) if cnt[1] or cnt[0] > case["maxcor"] else None),
                outcomes={"intercepted_run": 1}, n_exec=cnt[0],
                stats={"intercepted_updates": cnt[0], "intercepted_rejected": cnt[1]})


def collect(extra, r):
    mc = r.get("mc")
    if mc:
        for k in ("states", "transitions", "validated"):
            extra[k] = extra.get(k, 0) + mc[k]


def finalize(agg, tier):
    e = agg["extra"]
    return dict(states=e.get("states", 0), transitions=e.get("transitions", 0),
                traces_validated_against_impl=e.get("validated", 0),
                explanation="states/transitions: abstract memory states (tuples of stored "
                            "pair letters) and (state, candidate) edges of the BFS, summed over "
                            "variants and maxcor; every edge was executed on the real "
                            "update_lbfgs_matrices by replaying the state's shortest history and "
                            "the implementation's read-back state compared with the model's")
