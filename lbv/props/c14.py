"""C14 - runs are deterministic, isolated from each other and do not touch their inputs
(engine E4 schedule explorer + exhaustive call sequences + nesting + logging grid)."""
import copy
import hashlib
import itertools
import logging
import subprocess
import sys

import numpy as np

from lbv import core, sched
from lbv.core import V
from lbv import families as F

PID = "C14"
LEVEL = "model_checking"
DESIGN_REF = "DESIGN.md section 4 / C14"
CHUNK = 1
CASE_TIMEOUT = 1500.0     # one case = a whole schedule subtree (thousands of executions)
RULE = ("(a) alphabet of 9 call specifications (plain, bounded, 2-point FD, 3-point FD with "
        "other options, packaged scaler, restart from a frozen read-only checkpoint with a "
        "scaler, objective-redefining update function, a call whose objective raises, "
        "iprint=101 with a logger through a line-search restart); ALL sequences of length "
        "<= 3; every result compared bitwise with that call's solo result, itself compared "
        "with a fresh-process run; inputs passed read-only and compared with deep copies; "
        "(b) iprint x logger grid (8 levels x {None, logger}) on runs that traverse every "
        "display branch incl. an update function that drops pairs; (c) two optimisations "
        "as two threads, scheduling points = all user-callable calls: ALL interleavings of "
        "short runs, preemption bound 2 (quick; 1 for finite-difference pairs) / 3 (thorough; 2 for finite-difference pairs) on the complete runs, for 6 "
        "problem pairs incl. finite-difference modes with different options; (d) nesting: "
        "the whole second optimisation inside call i of the first's objective, for every i; "
        "thorough: (e) line-granularity preemption (sys.settrace line events in lbfgsb/*), "
        "bound 1; oracle: every result and evaluation log bitwise equal to the solo run; "
        "non-trivial = schedule with at least one switch between threads / sequence of "
        "length >= 2 / nesting; distinct = distinct schedule or sequence")
ASSUMPTIONS = [
    "scheduling points are user-callable boundaries (all tiers) and source lines of "
    "lbfgsb/* with one preemption (thorough); interpreter-level races inside one line and "
    "C-level threads are outside the model",
    "results are compared through a SHA-1 over x, fun, jac, counters, message and pairs",
]


# ------------------------------------------------------------------ call specifications
def digest(res):
    h = hashlib.sha1()
    for a in (res.x, np.float64(res.fun), res.jac, np.int64(res.nfev), np.int64(res.njev),
              np.int64(res.nit), res.hess_inv.sk, res.hess_inv.yk):
        h.update(np.ascontiguousarray(np.asarray(a, dtype=float)).tobytes())
    h.update(str(res.message).encode())
    h.update(str(bool(res.success)).encode())
    return h.hexdigest()


def ro(a):
    a = np.array(a, dtype=float, copy=True)
    a.setflags(write=False)
    return a


def convex3(v):
    return F.convex_problem(dict(kind="convex", fam="quart", hess="rot2", n=3,
                                 boxes=["free", "box", "lo"], start=["in", "ub", "in"],
                                 minloc=["below", "inside", "above"], var=v))


def convex2(v):
    return F.convex_problem(dict(kind="convex", fam="soft", hess="rot2", n=2,
                                 boxes=["box", "up"], start=["lb", "in"],
                                 minloc=["above", "below"], var=v))


SPECS = ("plain", "bounded", "fd2", "fd3", "scaler", "restart", "update", "raises", "print",
         "ownbuf", "restartnow", "tgt0big")


class Boom(Exception):
    pass


def make_call(spec, v, point=None, log=None, logger=None, iprint=None, nested=None):
    """-> zero-argument callable performing one minimize_lbfgsb call and returning
    (result-or-exception-digest, inputs_untouched: bool).  `point` is called before every
    user-callable invocation (scheduling point); `log` collects evaluation points;
    nested = (index, callable) runs the callable inside objective call number index."""
    from lbfgsb import (minimize_lbfgsb, rosenbrock, rosenbrock_grad,
                        get_gradient_projection_unit_scaling)
    cnt = [0]

    def wrap(f):
        def g(x, *a):
            if point is not None:
                point()
            if log is not None:
                log.append(np.asarray(x, float).tobytes())
            return f(x, *a)
        return g

    def wrapf(f):
        w = wrap(f)

        def g(x, *a):
            i = cnt[0]
            cnt[0] += 1
            if nested is not None and nested[0] == i:
                nested[1]()
            return w(x, *a)
        return g

    kw = dict(maxcor=3, maxiter=6, ftol=0.0, gtol=1e-10)
    if spec == "plain":
        x0 = ro([-1.2 + 0.01 * v, 1.0, 0.3])
        args = dict(x0=x0, fun=wrapf(rosenbrock), jac=wrap(rosenbrock_grad), bounds=None, **kw)
    elif spec in ("bounded", "scaler", "update", "raises"):
        p = convex3(v)
        args = dict(x0=ro(p.x0), fun=wrapf(p.f), jac=wrap(p.g), bounds=ro(p.bounds), **kw)
        if spec == "scaler":
            args["gradient_scaler"] = get_gradient_projection_unit_scaling
        if spec == "update":
            w = [1.0]
            ncall = [0]
            f2 = lambda x: 0.5 * float(x @ x)  # noqa: E731
            args["fun"] = wrapf(lambda x: p.f(x) + w[0] * f2(x))
            args["jac"] = wrap(lambda x: p.g(x) + w[0] * x)

            def upd(x, f0, f0_old, grad, X, G):
                if point is not None:
                    point()
                ncall[0] += 1
                if ncall[0] - 1 == 2:
                    w[0] = 5.0
                    fn = lambda z: p.f(z) + 5.0 * f2(z)  # noqa: E731
                    gn = lambda z: p.g(z) + 5.0 * z  # noqa: E731
                    return fn(x), fn(X[-1]), gn(x), type(G)(gn(z) for z in X)
                return f0, f0_old, grad, G
            args["update_fun_def"] = upd
            args["ftol"] = -10.0
        if spec == "raises":
            inner = args["fun"]
            calls = [0]

            def bad(x):
                calls[0] += 1
                if calls[0] == 5:
                    raise Boom("objective failed")
                return inner(x)
            args["fun"] = bad
    elif spec == "fd2":
        p = convex2(v)
        args = dict(x0=ro(p.x0), fun=wrapf(p.f), jac="2-point", bounds=ro(p.bounds), **kw)
    elif spec == "fd3":
        p = convex3(v)
        args = dict(x0=ro(p.x0), fun=wrapf(p.f), jac="3-point", bounds=ro(p.bounds),
                    finite_diff_rel_step=1e-5, **kw)
    elif spec in ("restart", "restartnow"):
        p = convex3(v)
        ck = minimize_lbfgsb(x0=p.x0.copy(), fun=p.f, jac=p.g, bounds=p.bounds.copy(),
                             **dict(kw, maxiter=3))
        ck = copy.deepcopy(ck)
        from scipy.optimize import LbfgsInvHessProduct
        ck.x, ck.jac = ro(ck.x), ro(ck.jac)
        ck.hess_inv = LbfgsInvHessProduct(ro(ck.hess_inv.sk), ro(ck.hess_inv.yk))
        args = dict(x0=ck.x, fun=wrapf(p.f), jac=wrap(p.g), bounds=ro(p.bounds), checkpoint=ck,
                    gradient_scaler=(lambda *a: 0.37), **kw)
        if spec == "restartnow":
            # the target is already met by the checkpoint: the call returns at once
            del args["gradient_scaler"]
            args["ftarget"] = float(ck.fun) + 1.0
    elif spec == "ownbuf":
        # linear term whose coefficient array belongs to the caller and is what the
        # gradient callable returns at x0 (x0 = 0 of a QP: g = c); constant scaler 2.0
        p = convex3(v)
        cvec = np.array([3.0, -2.0, 1.5])
        qd = np.array([2.0, 1.0, 4.0])
        fr = lambda x: float(cvec @ x + 0.5 * (qd * x) @ x)  # noqa: E731

        def gr(x):
            return cvec if not np.any(x) else cvec + qd * x
        lbz = np.array([-1.0, -1.0, -1.0])
        ubz = np.array([2.0, 0.5, 1.0])
        args = dict(x0=ro(np.zeros(3)), fun=wrapf(fr), jac=wrap(gr),
                    bounds=ro(np.array([lbz, ubz]).T), gradient_scaler=(lambda *a: 2.0), **kw)
        args["_own"] = cvec
    elif spec in ("cutls1", "cutls3", "cutrosen"):
        # line searches cut after 2 trials: the accepted step is the lowest trial, which is
        # then not the last one the safeguarded iteration proposed
        kwc = dict(kw, maxiter=40, ftol=1e-13, gtol=1e-9)
        if spec == "cutrosen":
            args = dict(x0=ro([2.0 + 0.01 * v, -2.0, 2.0]), fun=wrapf(rosenbrock),
                        jac=wrap(rosenbrock_grad), bounds=None, **dict(kwc, maxls=2))
        else:
            nn = int(spec[-1])
            f = lambda x: float(np.sum(x + np.exp(-10 * x)))  # noqa: E731
            g = lambda x: 1.0 - 10 * np.exp(-10 * x)  # noqa: E731
            # starts on the flat side of the wall: the first steps run into it
            x0_ = [2.5 + 0.01 * v] if nn == 1 else [0.7 + 0.01 * v, 0.2, 1.9]
            args = dict(x0=ro(x0_), fun=wrapf(f), jac=wrap(g), bounds=None,
                        **dict(kwc, maxls=(3 if nn == 1 else 20)))
    elif spec == "tgt0big":
        # target already met at x0, 400 variables: the call returns at once (what it
        # reports must not depend on what happens to lie in freshly allocated memory)
        xb = ro(np.linspace(-1.0, 1.0, 400) + 0.01 * v)
        args = dict(x0=xb, fun=wrapf(lambda x: float(x @ x)), jac=wrap(lambda x: 2 * x),
                    bounds=None, ftarget=1e9, **kw)
    elif spec in ("scaler32", "scaler0d"):
        # a gradient scaler handing its factor back as a numpy float32 / a 0-d array
        p = convex3(v)
        fac = np.float32(0.37) if spec == "scaler32" else np.array(2.5)
        # (the objective returns a plain Python float, the gradient a float64 array)
        args = dict(x0=ro(p.x0), fun=wrapf(lambda x: float(p.f(x))), jac=wrap(p.g),
                    bounds=ro(p.bounds), gradient_scaler=(lambda *a: fac), **kw)
    elif spec == "print":
        f = lambda x: float(np.sum(x + np.exp(-10 * x)))  # noqa: E731
        g = lambda x: 1.0 - 10 * np.exp(-10 * x)  # noqa: E731
        args = dict(x0=ro([-5.0 + 0.01 * v, -3.0]), fun=wrapf(f), jac=wrap(g), bounds=None,
                    **dict(kw, maxls=3, maxiter=8))
        if iprint is None:
            iprint = 101
            logger = quiet_logger()
    else:
        raise ValueError(spec)
    if iprint is not None:
        args["iprint"] = iprint
        args["logger"] = logger
    own = args.pop("_own", None)
    frozen = {k: copy.deepcopy(args[k]) for k in ("x0", "bounds", "checkpoint") if k in args}
    if own is not None:
        frozen["_own"] = own.copy()

    def call():
        try:
            res = minimize_lbfgsb(**args)
            d = digest(res)
        except Boom as e:
            d = "raised:" + str(e)
        untouched = True
        for k, old in frozen.items():
            new = own if k == "_own" else args[k]
            if k == "checkpoint":
                untouched &= (not H_same(new, old))
            elif old is not None:
                untouched &= bool(np.array_equal(new, old))
        return d, untouched
    return call


def H_same(a, b):
    from lbv import hist as H
    bad = H.same_state(a, b)
    for k in ("message", "status", "success"):
        if str(a.get(k)) != str(b.get(k)):
            bad.append(k)
    return bad


def quiet_logger():
    lg = logging.getLogger("lbv-c14")
    lg.handlers[:] = [logging.NullHandler()]
    lg.propagate = False
    lg.setLevel(logging.DEBUG)
    return lg


PAIRS = (("plain", "plain"), ("bounded", "fd2"), ("fd2", "fd3"), ("fd3", "fd3"),
         ("restart", "scaler"), ("update", "bounded"))


def fresh_digest(spec, v):
    """digest of one call performed in a new interpreter (nothing ran before it)"""
    code = ("import sys; sys.path.insert(0, %r); sys.path.insert(0, %r);"
            "from lbv.props import c14; print(c14.make_call(%r, %d)()[0])"
            % (core.VERIF, core.REPO, spec, v))
    out = subprocess.run([sys.executable, "-B", "-c", code], capture_output=True, text=True,
                         env=dict(__import__("os").environ, LBV_REPO=core.REPO))
    return out.stdout.strip().splitlines()[-1] if out.stdout.strip() else out.stderr[-300:]


def cases(tier, variants):
    from concurrent.futures import ThreadPoolExecutor
    for v in variants:
        for s in SPECS:
            yield dict(part="fresh", var=v, spec=s)
        # reference results of the sequences: each spec run alone in a new interpreter (a
        # long-lived worker may already carry state left by earlier cases)
        with ThreadPoolExecutor(len(SPECS)) as ex:
            pristine = list(ex.map(lambda s_: fresh_digest(s_, v), SPECS))
        for L in (1, 2, 3):
            for seq in itertools.product(range(len(SPECS)), repeat=L):
                if L == 3 and tier == "quick" and (seq[0] + seq[1] + seq[2]) % 3 != v % 3:
                    continue      # quick: a third of the length-3 sequences (seed-rotated)
                yield dict(part="seq", var=v, seq=list(seq),
                           pristine={str(si): pristine[si] for si in set(seq)})
        for ip in (-1, 0, 1, 50, 99, 100, 101, 1000):
            for lg in (0, 1):
                for s in ("print", "update", "bounded", "dropper", "boxhit", "boxhit1",
                          "boxhit2", "cutls1", "cutls3", "cutrosen", "scaler32", "scaler0d"):
                    yield dict(part="log", var=v, spec=s, iprint=ip, logger=lg)
        for pa in PAIRS:
            # all interleavings of short runs (first K points of each), split by the first
            # three scheduling decisions to spread over workers
            for pre in itertools.product((0, 1), repeat=3):
                yield dict(part="sched", var=v, pair=list(pa), short=True, prefix=list(pre),
                           bound=None)
            # longer runs (every user call a scheduling point): preemption-bounded
            fd = any(s.startswith("fd") for s in pa)
            b = (1 if fd else 2) if tier == "quick" else (2 if fd else 3)
            for pre in itertools.product((0, 1), repeat=(1 if tier == "quick" else 3)):
                yield dict(part="sched", var=v, pair=list(pa), short=False, prefix=list(pre),
                           bound=b)
        for a in ("bounded", "fd2", "fd3"):
            for b in ("plain", "fd2", "fd3", "restart"):
                yield dict(part="nest", var=v, outer=a, inner=b)
        if tier == "thorough":
            for pa in (("bounded", "plain"), ("fd2", "fd3")):
                yield dict(part="lines", var=v, pair=list(pa))


def solo(spec, v, short=False):
    log = []
    kw = {}
    d, ok = make_call(spec, v, log=log, **kw)()
    return d, log


def short_spec_kw(short):
    return dict(maxiter=1) if short else {}


def run(case):
    v = case["var"]
    part = case["part"]
    viol = []
    if part == "fresh":
        d0, _ = make_call(case["spec"], v)()
        got = fresh_digest(case["spec"], v)
        if got != d0:
            viol.append(V("fresh_process_result_differs", fresh=got, here=d0))
        return dict(viol=viol, outcome="fresh", stats={"fresh_process_runs": 1})
    if part == "seq":
        # reference = the result each spec gives when run alone in a new interpreter
        # (recorded with the case by cases(); computed here when absent, re-computed once on
        # a mismatch so that a replay on another tree is judged against that tree)
        pr = case.get("pristine") or {}
        base, rechecked = {}, set()
        for si in set(case["seq"]):
            base[si] = (pr.get(str(si)) or fresh_digest(SPECS[si], v), True)
            if str(si) not in pr:
                rechecked.add(si)
        for pos, si in enumerate(case["seq"]):
            # the caller's numpy error handling, set to numpy's own default for the call
            # (the harness's workers otherwise run with everything ignored)
            err_worker = np.seterr(divide="warn", over="warn", under="ignore", invalid="warn")
            err0 = np.geterr()
            try:
                import warnings as _w
                with _w.catch_warnings():
                    _w.simplefilter("ignore")
                    d, ok = make_call(SPECS[si], v)()
            except core.CaseTimeout:
                raise
            except Exception as e:
                d, ok = "error:" + repr(e)[:200], True
            if str(d).startswith("error:"):
                viol.append(V("call_raises", spec=SPECS[si], position=pos, exc=d))
            elif d != base[si][0]:
                if si not in rechecked:
                    rechecked.add(si)
                    base[si] = (fresh_digest(SPECS[si], v), True)
                if d != base[si][0]:
                    viol.append(V("result_depends_on_what_ran_before", spec=SPECS[si],
                                  position=pos))
            if not ok:
                viol.append(V("caller_inputs_modified", spec=SPECS[si], position=pos))
            if np.geterr() != err0:
                # the caller's numpy floating-point error handling is process state too
                viol.append(V("caller_numpy_error_state_changed", spec=SPECS[si], position=pos,
                              before=err0, after=np.geterr()))
            np.seterr(**err_worker)
        return dict(viol=viol[:4], outcome=f"seq{len(case['seq'])}",
                    nontrivial=core.case_hash(case) if len(case["seq"]) >= 2 else None)
    if part == "log":
        spec = case["spec"]
        mk = (lambda **k: make_dropper(v, **k)) if spec == "dropper" else \
            (lambda **k: make_boxhit(v, which=int(spec[6:] or 0), **k)) \
            if spec.startswith("boxhit") else \
            (lambda **k: make_call(spec, v, **k))
        try:
            ref = mk(iprint=-1, logger=None)()[0]
            got = mk(iprint=case["iprint"], logger=(quiet_logger() if case["logger"] else None))()[0]
        except core.CaseTimeout:
            raise
        except Exception as e:
            return dict(viol=[V("logging_configuration_changes_outcome", exc=repr(e)[:200])],
                        outcome="log_exception")
        if got != ref:
            viol.append(V("logging_configuration_changes_numerical_output", iprint=case["iprint"],
                          logger=bool(case["logger"])))
        return dict(viol=viol, outcome="log", nontrivial=core.case_hash(case))
    if part == "nest":
        a, b = case["outer"], case["inner"]
        da, loga = solo(a, v)
        db, logb = solo(b, v)
        n_out = len(loga)
        keys = []
        for i in range(min(n_out, 40)):
            inner_res = []
            lo, li = [], []

            def inner():
                inner_res.append(make_call(b, v, log=li)())
            try:
                d, ok = make_call(a, v, log=lo, nested=(i, inner))()
            except core.CaseTimeout:
                raise
            except Exception as e:
                viol.append(V("nested_run_raises", at_call=i, exc=repr(e)[:200]))
                continue
            keys.append(f"{core.case_hash(case)}-{i}")
            if not inner_res:
                continue
            if d != da or lo != loga:
                viol.append(V("outer_run_altered_by_nested_run", at_call=i))
            if inner_res[0][0] != db or li != logb:
                viol.append(V("nested_run_differs_from_solo", at_call=i))
        return dict(viol=viol[:4], nontrivial=dict(keys=keys), n_exec=len(keys),
                    outcomes={"nest": 1}, stats={"nested_positions": len(keys)})
    if part == "sched":
        a, b = case["pair"]
        short = case["short"]
        K = 5
        solo_res = []
        for s in (a, b):
            lg = []
            solo_res.append((make_call(s, v, log=lg)()[0], lg))

        def factory():
            logs = [[], []]
            bodies = []
            for ti, s in enumerate((a, b)):
                def body(point, _s=s, _ti=ti):
                    npts = [0]

                    def pt():
                        # short runs: only the first K user calls are scheduling points
                        npts[0] += 1
                        if not short or npts[0] <= K:
                            point()
                    return make_call(_s, v, point=pt, log=logs[_ti])()
                bodies.append(body)
            factory.logs = logs
            return bodies

        def check(run):
            out = []
            for ti in range(2):
                if run.errors[ti] is not None:
                    out.append(("thread_raises", dict(thread=ti, exc=repr(run.errors[ti])[:200])))
                    continue
                d, ok = run.results[ti]
                if d != solo_res[ti][0]:
                    out.append(("interleaved_result_differs_from_solo", dict(thread=ti)))
                elif factory.logs[ti] != solo_res[ti][1]:
                    out.append(("interleaved_evaluation_log_differs_from_solo", dict(thread=ti)))
                if not ok:
                    out.append(("caller_inputs_modified", dict(thread=ti)))
            return out
        st = sched.explore(factory, case["bound"], check, prefix=tuple(case["prefix"]),
                           max_exec=20000)
        for name, d, taken in st["findings"][:4]:
            viol.append(V(name, schedule=taken, **d))
        return dict(viol=viol, n_exec=st["executions"],
                    nontrivial=dict(keys=[f"{core.case_hash(case)}-{i}"
                                          for i in range(st["executions"])]),
                    outcomes={"sched_short" if short else "sched_bounded": st["executions"]},
                    mc=dict(states=len(st["states"]), transitions=st["transitions"],
                            validated=st["executions"]),
                    stats={"schedules": st["executions"], "capped": int(st["capped"])})
    if part == "lines":
        return run_lines(case)
    raise ValueError(part)


def make_dropper(v, iprint=None, logger=None, **k):
    """A run whose update function rewrites the stored gradients so that pairs must be
    dropped (the branch that logs 'Dropping update')."""
    from lbfgsb import minimize_lbfgsb
    p = convex3(v)
    ncall = [0]

    def upd(x, f0, f0_old, grad, X, G):
        ncall[0] += 1
        if ncall[0] - 1 == 4 and len(G) >= 2:
            Gl = [np.array(g_, copy=True) for g_ in G]
            Gl[-2] = -0.5 * Gl[-2] + 0.1
            return f0, f0_old, grad, type(G)(Gl)
        return f0, f0_old, grad, G

    def call():
        kw = dict(maxcor=3, maxiter=7, ftol=-10.0, gtol=1e-10)
        if iprint is not None:
            kw.update(iprint=iprint, logger=logger)
        res = minimize_lbfgsb(x0=p.x0.copy(), fun=p.f, jac=p.g, bounds=p.bounds.copy(),
                              update_fun_def=upd, **kw)
        return digest(res), True
    return call


def make_boxhit(v, iprint=None, logger=None, **k):
    """All-boxed problems whose variables reach their bounds one after the other while
    correction pairs exist, with free variables left at the Cauchy point (the auxiliary
    vector of the Cauchy search matters there)."""
    from lbfgsb import minimize_lbfgsb
    which = k.get("which", 0)
    n, hess, st, ml = [(4, "rot2", ["in", "lb"], ["below", "inside", "inside", "above"]),
                       (3, "diag", ["in"], ["above", "below", "inside"]),
                       (4, "rot2", ["lb", "ub"], ["below", "inside", "inside", "above"])][which]
    p = F.convex_problem(dict(kind="convex", fam="qp", hess=hess, n=n, boxes=["box"] * n,
                              start=F.tile(st, n), minloc=F.tile(ml, n), var=v))

    def call():
        kw = dict(maxcor=5, maxiter=25, ftol=0.0, gtol=1e-10)
        if iprint is not None:
            kw.update(iprint=iprint, logger=logger)
        res = minimize_lbfgsb(x0=p.x0.copy(), fun=p.f, jac=p.g, bounds=p.bounds.copy(), **kw)
        return digest(res), True
    return call


def run_lines(case):
    """Line-granularity preemption, bound 1: thread A is suspended at its j-th line event
    inside lbfgsb/*, B runs to completion, A resumes; for every j."""
    import threading
    v = case["var"]
    a, b = case["pair"]
    da, _ = make_call(a, v)()
    db, _ = make_call(b, v)()
    repo = core.REPO + "/lbfgsb/"
    # count line events of a solo run of A
    count = [0]

    def tracer_count(frame, event, arg):
        if frame.f_code.co_filename.startswith(repo):
            if event == "line":
                count[0] += 1
            return tracer_count
        return None
    sys.settrace(tracer_count)
    try:
        make_call(a, v)()
    finally:
        sys.settrace(None)
    total = count[0]
    viol, nex = [], 0
    stride = max(1, total // 1500)
    for j in range(0, total, stride):
        seen = [0]
        resb = []

        def tracer(frame, event, arg):
            if frame.f_code.co_filename.startswith(repo):
                if event == "line":
                    if seen[0] == j:
                        sys.settrace(None)
                        t = threading.Thread(target=lambda: resb.append(make_call(b, v)()))
                        t.start()
                        t.join()
                        sys.settrace(tracer)
                    seen[0] += 1
                return tracer
            return None
        sys.settrace(tracer)
        try:
            d, ok = make_call(a, v)()
        finally:
            sys.settrace(None)
        nex += 1
        if d != da:
            viol.append(V("preempted_run_differs_from_solo", at_line_event=j))
        if resb and resb[0][0] != db:
            viol.append(V("preempting_run_differs_from_solo", at_line_event=j))
    return dict(viol=viol[:4], n_exec=nex, outcomes={"lines": nex},
                nontrivial=dict(keys=[f"{core.case_hash(case)}-{i}" for i in range(nex)]),
                stats={"line_positions": nex, "line_events_total": total})


def collect(extra, r):
    mc = r.get("mc")
    if mc:
        for k in ("states", "transitions", "validated"):
            extra[k] = extra.get(k, 0) + mc[k]


def finalize(agg, tier):
    e = agg["extra"]
    return dict(states=e.get("states", 0), transitions=e.get("transitions", 0),
                traces_validated_against_impl=e.get("validated", 0),
                schedules=e.get("validated", 0),
                explanation="states = distinct scheduler states (per-thread progress vector, "
                            "running thread) summed over explored pairs; transitions = "
                            "scheduling decisions executed; every schedule is an execution of "
                            "the real code under the baton scheduler, compared with the solo "
                            "runs")
