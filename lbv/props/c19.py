"""C19 - each packaged benchmark gradient is the gradient of its benchmark function."""
import itertools

import numpy as np

from lbv import core
from lbv.core import V
from lbv import families as F

PID = "C19"
LEVEL = "exploration"
DESIGN_REF = "DESIGN.md section 4 / C19"
CHUNK = 4
RULE = ("8 function/gradient pairs x dimensions 1..12 (2.. for Rosenbrock, Beale) x lattice "
        "points: ALL of V^n for n<=3 (quick) / n<=4 (thorough), V = 9 non-integer, "
        "non-half-integer values in [-5,5] away from 0, and 27 cyclic patterns of V for "
        "larger n, plus points with one coordinate within 3e-6 (relative) of an integer or half-integer, plus for n>=2 the points with one or two coordinates exactly 0.0 (3 patterns per position), each point passed as a fresh ndarray, through one work array overwritten in "
        "place, as a list and as a tuple; oracle: 6th-order central differences of the package's own function "
        "(h=1e-3) agree within 1e-7 relative, gradient has the shape of x, function returns "
        "a real scalar; non-trivial = point with at least two distinct coordinates (or n=1); "
        "distinct = distinct (function, point)")
ASSUMPTIONS = [
    "numerical derivative: 6th-order central differences, h = 1e-3 (truncation < 1e-12 on "
    "these functions)",
    "points avoid the singularities (origin for Ackley - points on coordinate hyperplanes are "
    "included -, zeros of cos(x_i/sqrt(i)) for Griewank)",
]
V0 = [-4.3, -2.75, -1.1, -0.45, 0.3, 0.65, 1.9, 3.35, 4.8]
H = 1e-3
COEF = [(-3, -1.0), (-2, 9.0), (-1, -45.0), (1, 45.0), (2, -9.0), (3, 1.0)]


def vals(v):
    return [a + 0.0137 * v * (1 if i % 2 else -1) for i, a in enumerate(V0)]


def cases(tier, variants):
    full = 3 if tier == "quick" else 4
    for v in variants:
        for name in F.BENCH:
            nmin = 2 if name in ("rosenbrock", "beale") else 1
            for n in range(nmin, 13):
                if n <= full:
                    yield dict(var=v, fn=name, n=n, mode="full")
                else:
                    yield dict(var=v, fn=name, n=n, mode="cyclic")


def points(case):
    vv = vals(case["var"])
    n = case["n"]
    if case.get("point") is not None:
        yield np.array(case["point"], dtype=float)
        return
    if case["fn"] == "griewank":
        # the formula of the gradient divides by cos(x_i / sqrt(i)): the points where one
        # of these factors vanishes are regular points of the function
        for i in range(n):
            for k in (-2, -1, 0, 1):
                z = np.sqrt(i + 1.0) * (np.pi / 2 + k * np.pi)
                if abs(z) <= 5.0:
                    x = np.array([vv[(i + 2 * j) % 9] for j in range(n)])
                    x[i] = z
                    yield x
    # letter: a coordinate a hair away from a special value of the trigonometric terms
    # (integers and half-integers, relative distance 3e-6)
    for i in range(n):
        for kk in (3.0, -4.0, 1.5, -2.5):
            for o in (1, 5):
                x = np.array([vv[(o + 2 * j) % 9] for j in range(n)])
                x[i] = kk * (1.0 + 3e-6)
                yield x
    if n >= 2:
        # letter: some (not all) coordinates exactly 0.0 - regular points of all eight
        # functions lying on coordinate hyperplanes
        for i in range(n):
            for o in (0, 4, 7):
                x = np.array([vv[(o + 2 * j) % 9] for j in range(n)])
                x[i] = 0.0
                yield x
                if n >= 3:
                    x = x.copy()
                    x[(i + 1) % n] = 0.0
                    yield x
    if case["mode"] == "full":
        for c in itertools.product(vv, repeat=n):
            yield np.array(c)
    else:
        for o in range(9):
            for s in (1, 2, 4):
                yield np.array([vv[(o + s * i) % 9] for i in range(n)])


def numgrad(f, x):
    g = np.zeros(x.size)
    for i in range(x.size):
        acc = 0.0
        for k, c in COEF:
            xx = x.copy()
            xx[i] += k * H
            acc += c * float(f(xx))
        g[i] = acc / (60.0 * H)
    return g


def run(case):
    import lbfgsb
    f_lib = getattr(lbfgsb, case["fn"])
    g_lib = getattr(lbfgsb, case["fn"] + "_grad")
    raised = []

    class Raised(Exception):
        pass

    def guard(fn, name):
        def w(x):
            try:
                return fn(x)
            except Exception as e:       # a benchmark raising at a regular point
                raised.append((name, repr(e)[:200], [float(t) for t in np.asarray(x).ravel()]))
                raise Raised()
        return w
    f, g = guard(f_lib, "function"), guard(g_lib, "gradient")
    try:
        return _run(case, f, g)
    except Raised:
        name, exc, pt = raised[0]
        return dict(viol=[V("function_or_gradient_raises_at_a_regular_point",
                            _case=dict(case, point=pt), which=name, exc=exc)],
                    nontrivial=None, n_exec=1, outcomes={case["fn"]: 1})


def _run(case, f, g):
    viol, keys, nex = [], [], 0
    # first sweep: one work array, overwritten in place from point to point, nothing else
    # evaluated in between (value and gradient alternately first)
    buf = np.empty(case["n"])
    swept = []
    for i, x in enumerate(points(case)):
        buf[:] = x
        if i % 2:
            gb = np.array(g(buf), copy=True)
            fb = f(buf)
        else:
            fb = f(buf)
            gb = np.array(g(buf), copy=True)
        swept.append((fb, gb))
    held = None        # (live array returned for the previous point, copy taken then)
    for i, x in enumerate(points(case)):
        nex += 1
        sub = dict(case, point=[float(t) for t in x])
        x_in = x.copy()
        # input-kind letters: a fresh ndarray, the reused work array, a list, a tuple
        fb, gb = swept[i]
        fl, gl = f(x.tolist()), g(x.tolist())
        gt = g(tuple(x.tolist()))
        fx = f(x)
        gx = g(x)
        for name, fv, gv in (("reused_array", fb, gb), ("list", fl, gl), ("tuple", fx, gt)):
            if np.shape(gv) != x.shape:
                viol.append(V("gradient_shape_differs_from_x", _case=sub, input=name,
                              shape=np.shape(gv)))
            elif not (np.array_equal(np.asarray(gv, float), np.asarray(gx, float))
                      and float(fv) == float(fx)):
                viol.append(V("answer_depends_on_how_the_point_is_passed", _case=sub,
                              input=name))
        if not np.array_equal(x, x_in):
            viol.append(V("argument_modified", _case=sub))
        if np.ndim(fx) != 0 or np.iscomplexobj(fx) or not np.isfinite(fx):
            viol.append(V("function_value_not_a_real_scalar", _case=sub, value=repr(fx)))
            continue
        if held is not None and not np.array_equal(held[0], held[1]):
            viol.append(V("gradient_returned_earlier_changed_by_a_later_call", _case=sub))
        if isinstance(gx, np.ndarray):
            held = (gx, gx.copy())
        gx = np.asarray(gx)
        if gx.shape != x.shape:
            viol.append(V("gradient_shape_differs_from_x", _case=sub, shape=gx.shape))
            continue
        gn = numgrad(f, x)
        err = float(np.max(np.abs(gx - gn)) / (1.0 + np.max(np.abs(gn))))
        if not err <= 1e-7:
            viol.append(V("gradient_differs_from_numerical_derivative", _case=sub, err=err,
                          grad=gx, numerical=gn))
        if x.size == 1 or len(set(x.tolist())) > 1:
            keys.append(f"{case['fn']}-{core.case_hash(sub)}")
    return dict(viol=viol[:5], nontrivial=dict(keys=keys), n_exec=nex,
                outcomes={case["fn"]: nex}, stats={"points": nex})
