"""C08 - generalized Cauchy point (engine E6 + interception)."""
from collections import Counter

import numpy as np

from lbv import comp, core
from lbv.core import V
from lbv import families as F

PID = "C08"
LEVEL = "exploration"
DESIGN_REF = "DESIGN.md section 4 / C08"
CHUNK = 1
RULE = ("complete enumeration, for n<=3, of per-variable (box letter in {free,lo,up,box}) "
        "x (position L/I/U) x (gradient letter from 5 values incl. 0 and equal magnitudes "
        "=> tied breakpoints) x memory contents (0,1,2,2',3 stored pairs + dense pairs) x iteration number {1, and 0 when pairs are stored} x magnitude {1, and 1e-9 for n<=2: point, box and gradient scaled}, "
        "plus tilings of every 2-variable pattern to n in 4..10, plus every input "
        "intercepted at lbfgsb.main.get_cauchy_point during real runs; each input is given "
        "to the real get_cauchy_point and compared with a dense piecewise-quadratic "
        "reference; non-trivial = non-zero projected gradient AND (at least one finite "
        "breakpoint or a stored pair); distinct = distinct input")
ASSUMPTIONS = [
    "dense BFGS recursion over the stored columns S,Y is the model the compact matrices "
    "must represent (that equality itself is C10)",
    "tolerance 1e-9 relative on the Cauchy point, 1e-8 on the auxiliary vector",
]


def cases(tier, variants):
    if tier == "quick":
        # cheap enough: the synthetic enumeration runs under ALL numeric variants on every
        # change (ties and 1-ulp events depend on the numeric table, see DESIGN.md)
        variants_syn = list(range(core.NVAR))
        for gen in (comp.syn_batches((1, 2), variants_syn),
                    comp.syn_batches((3,), variants_syn, third=0),
                    comp.tiled_batches((5, 8), variants_syn)):
            for b in gen:
                # (the iteration-number letter under the seed's variant only)
                yield dict(b, it0=b["var"] in variants)
        yield from F.convex_cases(2, variants, (1, 3), fams=("qp", "soft"),
                                  hesses=("rot2",), extra=dict(part="icp"))
    else:
        for gen in (comp.syn_batches((1, 2, 3), variants),
                    comp.tiled_batches((4, 5, 6, 7, 8, 9, 10), variants)):
            for b in gen:
                yield dict(b, it0=True)
        yield from F.convex_cases(2, variants, (1, 3, 10), extra=dict(part="icp"))
        yield from F.convex_cases(3, variants[:1], (2,), fams=("quart",),
                                  hesses=("rot4",), extra=dict(part="icp"))


def _one(c):
    x, g, lb, ub = comp.build_single(c)
    if F.pgnorm(x, g, lb, ub) == 0:
        return None
    mats = comp.mats_for(c["n"], c["ps"])
    mag = float(c.get("mag", 1.0))
    if mag != 1.0:
        # magnitude letter: point, box and gradient all scaled (the model matrix is not):
        # the Cauchy point scales with them
        x, g, lb, ub = x * mag, g * mag, lb * mag, ub * mag
    out, xr, B = comp.check_gcp(x, g, lb, ub, comp.fresh_mats(mats), c.get("it", 1), unit=mag)
    return out, x, g, lb, ub, xr


def run(case):
    part = case.get("part")
    if part == "syn1":
        r = _one(case)
        if r is None:
            return dict(viol=[], outcome="zero_pg")
        return dict(viol=[V(s, **d) for s, d in r[0]], outcome="checked",
                    nontrivial=core.case_hash(case))
    if part == "syn":
        viol, keys, outc, nex = [], [], Counter(), 0
        # letter: the iteration number handed to the routine (0 = "first iteration", with
        # a non-empty memory as after a restart, or 1); the Cauchy point is a function of
        # the model, not of the iteration counter
        cs = comp.expand(case)
        if case.get("it0") and case["ps"] not in (0, "0"):
            cs = [c_ for c in cs for c_ in (c, dict(c, it=0))]
        if case.get("it0") and case["n"] <= 2:
            # magnitude letter (problems living at 1e-9: absolute constants show)
            cs = list(cs) + [dict(c, mag=1e-9) for c in comp.expand(case)]
        for c in cs:
            r = _one(c)
            if r is None:
                outc["zero_pg"] += 1
                continue
            nex += 1
            out, x, g, lb, ub, xr = r
            nb = int(np.sum((xr == lb) | (xr == ub)))
            outc[f"n{case['n']}_m{case['ps']}_atbound{nb}"] += 1
            keys.append(core.case_hash(c))
            for s, d in out:
                viol.append(V(s, _case=c, **d))
        return dict(viol=viol[:50], nontrivial=dict(keys=keys), outcomes=dict(outc),
                    n_exec=nex, stats={"synthetic_inputs": nex})
    # intercepted inputs from a real run
    from lbfgsb import minimize_lbfgsb
    p = F.convex_problem(case)
    found, cnt, pre = [], [0], [0]

    def on_call(a):
        x, g, lb, ub, mats, it = a[:6]
        if F.pgnorm(x, g, lb, ub) == 0:
            return
        if (x < lb).any() or (x > ub).any():
            pre[0] += 1   # precondition "feasible point" fails: that is C02's business
            return
        cnt[0] += 1
        out, _, _ = comp.check_gcp(x.copy(), g.copy(), lb, ub, comp.fresh_mats(mats), it)
        for s, d in out:
            found.append(V(s, at_iteration=int(it), x=x, g=g, **d))
    with comp.interceptor("get_cauchy_point", on_call):
        minimize_lbfgsb(x0=p.x0.copy(), fun=p.f, jac=p.g, bounds=p.bounds,
                        maxcor=case["maxcor"], ftol=0.0, gtol=1e-6, maxiter=40)
    return dict(viol=found[:10], nontrivial=(core.case_hash(case) if cnt[0] else None),
                outcomes={"intercepted_run": 1}, n_exec=cnt[0],
                stats={"intercepted_inputs": cnt[0], "intercepted_infeasible_skipped": pre[0]})
