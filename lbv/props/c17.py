"""C17 - a gradient scaler is equivalent to minimising the explicitly scaled objective."""
import numpy as np

from lbv import core, hist as H
from lbv.core import V
from lbv import families as F

PID = "C17"
LEVEL = "exploration"
DESIGN_REF = "DESIGN.md section 4 / C17"
CHUNK = 8
RULE = ("every 2-variable letter combination of the convex family (soft, rot2; thorough: 3 "
        "families x 3 Hessians) and 12 non-convex objectives x n in {2,3} x box {box,mixed} x "
        "start {in,vertex}, x scale s in {1e-3, 0.37, 3, 1e3, 1.000001, 0.999995, 1.0, packaged projected-gradient "
        "unit scaler} x ftarget {None, geometric midpoint between two consecutive objective "
        "values of the reference trajectory} x maxcor {1,3}; run A (scaler) and run B "
        "(s*f, s*grad f, ftarget*s) must agree BITWISE in evaluation log, x, fun, jac, nfev, "
        "njev, nit, message and correction pairs; the scaler is called exactly once with "
        "(clipped x0, unscaled gradient at x0, lb, ub); non-trivial = run with >= 2 "
        "iterations and s != 1; distinct = distinct case")
ASSUMPTIONS = [
    "the target is never placed within rounding distance of an objective value",
    "cases whose start has a zero projected gradient are skipped for the packaged scaler "
    "(division by zero is outside its domain)",
]
# (the last three: the neighbourhood of the identity factor, s = 1 +- a few 1e-6, and 1.0)
SCALES = (1e-3, 0.37, 3.0, 1e3, "packaged", 1.000001, 0.999995, 1.0)
NMAIN = 5


def cases(tier, variants):
    fams = ("soft",) if tier == "quick" else F.FAMS
    hs = ("rot2",) if tier == "quick" else None
    mcs = (3,) if tier == "quick" else (1, 3)
    for c in F.convex_cases(2, variants, mcs, fams=fams, hesses=hs):
        for s in range(len(SCALES)):
            for tg in (0, 1):
                yield dict(c, sc=s, tgt=tg)
    # configuration letters: a pass-through update function (the target test has its own
    # call site on that path) and a user gradient that keeps ownership of the array it
    # returns
    for c in F.convex_cases(2, variants, (3,), fams=("quart",), hesses=("rot2",)):
        for s in (0, 3):
            yield dict(c, sc=s, tgt=1, upd=1)
            yield dict(c, sc=s, tgt=0, user="samebuf")
            yield dict(c, sc=s, tgt=0, user="constbuf")
    # letter: gtol placed between the projected-gradient norms of f and of s*f at the
    # start (the very first stop test must look at the scaled gradient)
    for c in F.convex_cases(2, variants, (3,), fams=("quart",), hesses=("rot2",)):
        for s in (0, 3, 4):
            yield dict(c, sc=s, tgt=0, gmid=1)
    # letter: an update function that really redefines the objective at its first
    # (pre-loop) call - rescales it by 0.5 - in both runs
    for c in F.convex_cases(2, variants, (3,), fams=("quart",), hesses=("rot2",)):
        for s in (0, 3):
            yield dict(c, sc=s, tgt=0, upd=2)
    # letter: the scaler hands its factor back as a numpy 0-d array
    for c in F.convex_cases(2, variants, (3,), fams=("quart",), hesses=("rot2",)):
        for s in (0, 3):
            yield dict(c, sc=s, tgt=0, sret="arr0")
    # finite-difference gradient with power-of-two scales (s*(f(x+h)-f(x))/h is then
    # bit-identical to the difference quotient of s*f)
    for c in F.convex_cases(2, variants, (3,), fams=("qp",), hesses=("rot2",)):
        for s2 in (0.125, 8.0):
            yield dict(c, part="fd", s2=s2, tgt=0, sc=0)
    # restart letter: a scaler returning exactly 1.0 on a restart changes nothing, is called
    # once with (checkpoint.x, checkpoint.jac, bounds) and costs no evaluation
    for c in F.convex_cases(2, variants, (3,), fams=("quart",), hesses=("rot2",)):
        for k in (0, 2):
            yield dict(c, part="restart1", k=k)
            # ... and with s != 1: restart with the scaler == restart on s*f, from the
            # state of a run on s*f; unscaled target reached later / already met
            for rs in (0.1, 8.0):
                for tg in (0, 1, 2):
                    yield dict(c, part="restart1", k=k, rs=rs, tgt=tg)
    for v in variants:
        for fam in F.NONCONVEX:
            for n in (2, 3):
                for box in ("box", "mixed"):
                    for start in ("in", "vertex"):
                        for s in list(range(NMAIN)) + [NMAIN + (n + m_) % 2 for m_ in (0,)]:
                            for m in (1, 3):
                                for tg in (0, 1):
                                    yield dict(kind="nonconvex", fam=fam, n=n, box=box,
                                               start=start, var=v, maxcor=m, sc=s, tgt=tg)


def run(case):
    from lbfgsb import minimize_lbfgsb, get_gradient_projection_unit_scaling
    p = F.problem_of(case)
    if case.get("part") == "restart1":
        return run_restart1(p, case)
    if case.get("part") == "fd":
        return run_fd(p, case)
    x0c = np.clip(p.x0, p.lb, p.ub)
    g0 = np.asarray(p.g(x0c), float)
    s = SCALES[case["sc"]]
    packaged = False
    if s == "packaged":
        if F.pgnorm(x0c, g0, p.lb, p.ub) == 0:
            return dict(viol=[], outcome="zero_pg_skipped", stats={"skipped": 1})
        # the factor the packaged scaler is documented to return, computed by the harness:
        # 1 / |P(x - g) - x|_inf (run A calls the packaged function itself)
        with np.errstate(divide="ignore"):
            s = float(1.0 / np.max(np.abs(np.clip(x0c - g0, p.lb, p.ub) - x0c)))
        if not np.isfinite(s) or s <= 0:
            return dict(viol=[], outcome="scaler_undefined_skipped", stats={"skipped": 1})
        packaged = True
    kw = dict(bounds=p.bounds, maxcor=case["maxcor"], maxiter=25, ftol=1e-12, gtol=1e-9)
    tgt = None
    if case["tgt"]:
        vals = []
        try:
            minimize_lbfgsb(x0=p.x0.copy(), fun=p.f, jac=p.g,
                            callback=lambda x, st: vals.append(float(st.fun)) and False, **kw)
        except Exception:
            vals = []
        j = min(3, len(vals) - 1)
        if j >= 1 and np.isfinite(vals[j]) and vals[j - 1] - vals[j] > 1e-6 * (1 + abs(vals[j])):
            tgt = 0.5 * (vals[j - 1] + vals[j])
        else:
            return dict(viol=[], outcome="no_target_slot_skipped", stats={"skipped": 1})
    viol = []
    calls = []

    def scaler(x, g, lb, ub):
        calls.append((np.array(x, copy=True), np.array(g, copy=True), np.array(lb, copy=True),
                      np.array(ub, copy=True)))
        if packaged:
            return get_gradient_projection_unit_scaling(x, g, lb, ub)
        # letter: how the factor is handed back (float, numpy 0-d array, numpy float32 of
        # a value exactly representable in single precision)
        if case.get("sret") == "arr0":
            return np.array(s)
        return s
    user = case.get("user", "pure")
    if user == "constbuf":
        # linear objective whose gradient callable returns its own coefficient array
        wv = np.array([1.0 + 0.37 * i for i in range(p.n)]) * np.where(np.arange(p.n) % 2, -1, 1)
        wb = wv * s
        fa_, ga_ = (lambda x: float(wv @ x)), (lambda x: wv)
        fb_, gb_ = (lambda x: float(wv @ x) * s), (lambda x: wb)
        g0 = wv.copy()
        oa = F.Obs(fa_, ga_, p.lb, p.ub)
        ob = F.Obs(fb_, gb_, p.lb, p.ub)
        oa.jac_raw, ob.jac_raw = ga_, gb_
    else:
        oa = F.Obs(p.f, p.g, p.lb, p.ub, user=user)
        ob = F.Obs(lambda x: p.f(x) * s, lambda x: np.asarray(p.g(x), float) * s, p.lb, p.ub,
                   user=user)
    ident = (lambda x, f0, f0_old, grad, X, G: (f0, f0_old, grad, G)) if case.get("upd") else None
    if ident is not None:
        kw = dict(kw, update_fun_def=ident)
    if case.get("gmid"):
        pg0 = F.pgnorm(x0c, g0, p.lb, p.ub)
        if pg0 == 0:
            return dict(viol=[], outcome="zero_pg_skipped", stats={"skipped": 1})
        kw = dict(kw, gtol=float(np.sqrt(s) * pg0))
    hooks = None
    if case.get("upd") == 2:
        # one hook (with its own factor cell) per run; the objective of that run reads it
        def make_hook():
            cell, n_ = [1.0], [0]

            def hook(x, f0, f0_old, grad, X, G):
                n_[0] += 1
                if n_[0] == 1:
                    cell[0] = 0.5
                    return 0.5 * f0, 0.5 * f0_old, 0.5 * grad, type(G)(0.5 * q for q in G)
                return f0, f0_old, grad, G
            return cell, hook
        ca, ha = make_hook()
        cb_, hb = make_hook()
        oa = F.Obs(lambda x: ca[0] * p.f(x), lambda x: ca[0] * np.asarray(p.g(x), float),
                   p.lb, p.ub)
        ob = F.Obs(lambda x: cb_[0] * p.f(x) * s, lambda x: cb_[0] * np.asarray(p.g(x), float) * s,
                   p.lb, p.ub)
        hooks = (ha, hb)
    ea = eb = None
    try:
        a = minimize_lbfgsb(x0=p.x0.copy(), fun=oa.fun, jac=getattr(oa, "jac_raw", oa.jac),
                            gradient_scaler=scaler,
                            ftarget=tgt, **(dict(kw, update_fun_def=hooks[0]) if hooks else kw))
    except core.CaseTimeout:
        raise
    except Exception as e:
        ea = repr(e)
    try:
        b = minimize_lbfgsb(x0=p.x0.copy(), fun=ob.fun, jac=getattr(ob, "jac_raw", ob.jac),
                            ftarget=(None if tgt is None else tgt * s),
                            **(dict(kw, update_fun_def=hooks[1]) if hooks else kw))
    except core.CaseTimeout:
        raise
    except Exception as e:
        eb = repr(e)
    if ea or eb:
        if (ea is None) != (eb is None):
            viol.append(V("only_one_of_the_two_runs_raises", scaler_run=ea, scaled_run=eb))
        return dict(viol=viol, outcome="exception")
    bad = H.same_state(a, b)
    if str(a.message) != str(b.message):
        bad.append("message")
    if bad:
        viol.append(V("scaler_run_differs_from_scaled_objective_run", fields=bad, s=s,
                      msg_a=str(a.message), msg_b=str(b.message), nit_a=int(a.nit),
                      nit_b=int(b.nit)))
    if user == "constbuf" and not (np.array_equal(wv, g0) and np.array_equal(wb, g0 * s)):
        viol.append(V("user_gradient_array_modified_by_the_solver", now=wv, was=g0))
    if oa.calls != ob.calls:
        viol.append(V("evaluation_logs_differ", na=len(oa.calls), nb=len(ob.calls), s=s))
    if a.njev >= 1 or calls:
        if len(calls) != 1:
            viol.append(V("scaler_called_n_times", n=len(calls)))
        else:
            x_, g_, lb_, ub_ = calls[0]
            if not (np.array_equal(x_, x0c) and np.array_equal(g_, g0)
                    and np.array_equal(lb_, p.lb) and np.array_equal(ub_, p.ub)):
                viol.append(V("scaler_called_with_wrong_arguments", x=x_, g=g_, want_x=x0c,
                              want_g=g0))
    if tgt is not None and "TARGET" in str(a.message):
        if not p.f(np.asarray(a.x, float)) <= tgt:
            viol.append(V("target_tested_on_scaled_value", unscaled=p.f(np.asarray(a.x, float)),
                          ftarget=tgt))
    return dict(viol=viol, outcome=f"{a.message}|tgt{int(tgt is not None)}",
                nontrivial=core.case_hash(case) if (a.nit >= 2 and s != 1.0) else None)


def run_restart1(p, case):
    """restart letter: checkpoint = result of k iterations on the explicitly scaled
    objective s*f; restart A on f with a scaler returning s, restart B on s*f without
    scaler (for s = 1 the checkpoint is an ordinary one and B is the plain restart)"""
    import copy
    from lbfgsb import minimize_lbfgsb
    s = float(case.get("rs", 1.0))
    fs = (lambda x: p.f(x) * s) if s != 1.0 else p.f
    gs = (lambda x: np.asarray(p.g(x), float) * s) if s != 1.0 else p.g
    kw = dict(bounds=p.bounds, maxcor=case["maxcor"], ftol=0.0, gtol=1e-10)
    ck = minimize_lbfgsb(x0=p.x0.copy(), fun=fs, jac=gs, maxiter=case["k"], **kw)
    if ck.nit != case["k"]:
        return dict(viol=[], outcome="parent_stopped_early", stats={"skipped": 1})
    tgt = None
    if case.get("tgt"):
        # unscaled target between the objective values of iterations k+1 and k+2 of the
        # continued run (tgt=1), or just ABOVE the checkpoint's unscaled value (tgt=2: met
        # at the restart point itself)
        vals = []
        minimize_lbfgsb(x0=p.x0.copy(), fun=p.f, jac=p.g, maxiter=case["k"] + 3,
                        callback=lambda x, st: vals.append(float(st.fun)) and False, **kw)
        k = case["k"]
        if case["tgt"] == 2:
            tgt = float(ck.fun) / s + 1e-3 * (1.0 + abs(float(ck.fun) / s))
        elif len(vals) >= k + 2 and vals[k] - vals[k + 1] > 1e-6 * (1 + abs(vals[k + 1])):
            tgt = 0.5 * (vals[k] + vals[k + 1])
        else:
            return dict(viol=[], outcome="no_target_slot_skipped", stats={"skipped": 1})
    viol, calls = [], []

    def scaler(x, g, lb, ub):
        calls.append((np.array(x, copy=True), np.array(g, copy=True)))
        return s
    oa, ob = F.Obs(p.f, p.g, p.lb, p.ub), F.Obs(fs, gs, p.lb, p.ub)
    a = minimize_lbfgsb(x0=np.array(ck.x, copy=True), fun=oa.fun, jac=oa.jac,
                        checkpoint=copy.deepcopy(ck), maxiter=case["k"] + 3,
                        gradient_scaler=scaler, ftarget=tgt, **kw)
    b = minimize_lbfgsb(x0=np.array(ck.x, copy=True), fun=ob.fun, jac=ob.jac,
                        checkpoint=copy.deepcopy(ck), maxiter=case["k"] + 3,
                        ftarget=(None if tgt is None else tgt * s), **kw)
    bad = H.same_state(a, b)
    if bad or str(a.message) != str(b.message):
        viol.append(V("restart_with_scaler_differs_from_restart_on_scaled_objective",
                      fields=bad, s=s, msg_a=str(a.message), msg_b=str(b.message)))
    if oa.calls != ob.calls:
        viol.append(V("evaluation_logs_differ", na=len(oa.calls), nb=len(ob.calls)))
    if len(calls) != 1:
        viol.append(V("scaler_called_n_times", n=len(calls)))
    elif not (np.array_equal(calls[0][0], ck.x) and np.array_equal(calls[0][1], ck.jac)):
        viol.append(V("scaler_called_with_wrong_arguments", x=calls[0][0], g=calls[0][1]))
    if tgt is not None and "TARGET" in str(a.message):
        if not p.f(np.asarray(a.x, float)) <= tgt:
            viol.append(V("target_tested_on_scaled_value", unscaled=p.f(np.asarray(a.x, float)),
                          ftarget=tgt))
    return dict(viol=viol, outcome=f"restart1|{a.message}", nontrivial=core.case_hash(case))


def run_fd(p, case):
    from lbfgsb import minimize_lbfgsb
    s = case["s2"]
    kw = dict(bounds=p.bounds, maxcor=case["maxcor"], maxiter=15, ftol=1e-12, gtol=1e-9,
              jac="2-point")
    oa = F.Obs(p.f, p.g, p.lb, p.ub)
    ob = F.Obs(lambda x: p.f(x) * s, p.g, p.lb, p.ub)
    viol = []
    try:
        a = minimize_lbfgsb(x0=p.x0.copy(), fun=oa.fun, gradient_scaler=(lambda *a_: s), **kw)
        b = minimize_lbfgsb(x0=p.x0.copy(), fun=ob.fun, **kw)
    except core.CaseTimeout:
        raise
    except Exception as e:
        return dict(viol=[], outcome="exception:" + type(e).__name__, stats={"exceptions": 1})
    bad = H.same_state(a, b)
    if bad or str(a.message) != str(b.message):
        viol.append(V("scaler_run_differs_from_scaled_objective_run", fields=bad, s=s, jac="2-point"))
    if oa.calls != ob.calls:
        viol.append(V("evaluation_logs_differ", na=len(oa.calls), nb=len(ob.calls), s=s))
    return dict(viol=viol, outcome=f"fd|{a.message}",
                nontrivial=core.case_hash(case) if a.nit >= 2 else None)
