"""C01 - convex box problems reach a KKT point (engine E1, DESIGN.md section 4/C01)."""
import numpy as np

from lbv import core
from lbv.core import V
from lbv import families as F

PID = "C01"
LEVEL = "exploration"
DESIGN_REF = "DESIGN.md section 4 / C01"
CHUNK = 16
RULE = ("complete enumeration of (family x Hessian x per-variable box/start/minimiser "
        "letters x maxcor) for n<=2 (quick) / n<=3 (thorough) plus cyclic tilings of every "
        "2-variable pattern to n in {4,6,8,12}, and the n=2 letter space with the box written as a list of (min,max) pairs with +-inf / with None or with user callables that overwrite their argument; one real minimize_lbfgsb run per case with "
        "ftol=0, gtol=1e-6; oracle: projected-gradient norm recomputed from the harness "
        "closures <= max(100*gtol, 30*sqrt(eps*max(|f|,|f0|,1)*L)), no exception; "
        "non-trivial = at least one iteration AND some variable on a bound at the start or "
        "at the returned point; distinct = distinct case")
ASSUMPTIONS = [
    "continuous inputs are represented by the finite letter alphabets of lbv/families.py "
    "(4 numeric variants; quick runs variant VERIF_SEED mod 4, thorough all)",
    "above n=3 structural patterns are cyclic tilings of 2-variable patterns",
    "NumPy/SciPy linear algebra trusted",
]
GTOL = 1e-6


def cases(tier, variants):
    if tier == "quick":
        for n in (1, 2):
            yield from F.convex_cases(n, variants, (1, 3, 10))
        for z in ("lo", "up", "deg"):
            yield from F.convex_cases(2, variants, (3,), fams=("qp",), hesses=("rot2",),
                                      extra=dict(zero=z))
        for far in (2e3, 1e6):
            yield from F.convex_cases(2, variants, (3,), fams=("qp", "quart"),
                                      hesses=("rot4",), boxes=("free", "lo", "up"),
                                      extra=dict(far=far))
        # letter: the box written as a list of (min, max) pairs, with +-inf or with None
        for rep in ("pairs", "none"):
            yield from F.convex_cases(2, variants, (3,), fams=("qp",), hesses=("rot2",),
                                      extra=dict(brep=rep))
        # user letter: an objective/gradient implementation that works in place on the
        # array it receives (mathematically the same function)
        yield from F.convex_cases(2, variants, (3,), fams=("qp", "soft"), hesses=("rot2",),
                                  extra=dict(user="scribble"))
        # a thin slice of the tilings so that larger n is exercised on every change
        yield from F.tiled_cases(6, 2, variants, [("rot2", 4)], fams=("qp",))
    else:
        for n in (1, 2):
            yield from F.convex_cases(n, variants, (1, 2, 3, 5, 10))
        yield from F.convex_cases(3, variants, (1, 2, 5))
        for z in ("lo", "up", "deg"):
            yield from F.convex_cases(2, variants, (1, 3, 10), extra=dict(zero=z))
        for far in (2e3, 1e6):
            yield from F.convex_cases(2, variants, (1, 3, 10), boxes=("free", "lo", "up"),
                                      extra=dict(far=far))
        for rep in ("pairs", "none"):
            yield from F.convex_cases(2, variants, (1, 3, 10), extra=dict(brep=rep))
        yield from F.convex_cases(2, variants, (1, 3, 10), extra=dict(user="scribble"))
        for n in (4, 6, 8, 12):
            yield from F.tiled_cases(n, 2, variants,
                                     [("rot2", 1), ("rot2", 4), ("rot2", 10), ("rot4", 10),
                                      ("diag", 7)])


def _solve(p, case, maxiter, maxfun):
    from lbfgsb import minimize_lbfgsb
    obs = F.Obs(p.f, p.g, p.lb, p.ub, user=case.get("user", "pure"))
    res = minimize_lbfgsb(x0=p.x0.copy(), fun=obs.fun, jac=obs.jac, bounds=p.bounds.copy(),   # (array or list of pairs)
                          maxcor=case["maxcor"], ftol=0.0, gtol=GTOL, maxiter=maxiter,
                          maxfun=maxfun)
    return res, obs


def run(case):
    p = F.convex_problem(case)
    n = case["n"]
    big = n > 3
    maxiter, maxfun = (4000, 40000) if big else (300, 3000)
    viol = []
    try:
        res, obs = _solve(p, case, maxiter, maxfun)
    except core.CaseTimeout:
        raise
    except Exception as e:
        return dict(viol=[V("exception", exc=repr(e))], nontrivial=None,
                    outcome="exception", stats={"exceptions": 1})
    x = np.asarray(res.x, dtype=float)
    f0 = p.f(p.x0)

    def judge(res):
        x = np.asarray(res.x, dtype=float)
        pg = F.pgnorm(x, p.g(x), p.lb, p.ub)
        L = p.lip(x, p.x0)
        thr = max(100 * GTOL, 30 * np.sqrt(np.finfo(float).eps *
                                           max(abs(p.f(x)), abs(f0), 1.0) * L))
        return pg, thr

    pg, thr = judge(res)
    stats = {"reran_budget": 0}
    if not (pg <= thr) and ("LIMIT" in str(res.message)):
        # budget is part of the alphabet: "ample" means the run is not limited by it
        stats["reran_budget"] = 1
        res, obs = _solve(p, case, 10 * maxiter, 10 * maxfun)
        pg, thr = judge(res)
    if not (pg <= thr):
        viol.append(V("not_stationary", pg=pg, threshold=thr, message=str(res.message),
                      nit=int(res.nit), nfev=int(res.nfev), x=res.x))
    x = np.asarray(res.x, dtype=float)
    onb0 = bool(np.any((p.x0 <= p.lb) | (p.x0 >= p.ub)))
    onb1 = bool(np.any((x <= p.lb) | (x >= p.ub)))
    nontrivial = core.case_hash(case) if (res.nit >= 1 and (onb0 or onb1)) else None
    pats = [F.pattern(q, p.lb, p.ub) for q in obs.pts]
    graph = dict(nodes=set(pats), edges=set(zip(pats, pats[1:])))
    return dict(viol=viol, nontrivial=nontrivial, outcome=str(res.message), stats=stats,
                graph=graph)
