"""C05 - result coherence: fun and jac belong to x; counters equal calls made."""
import copy
import itertools

import numpy as np

from lbv import core, env as E, hist as H
from lbv.core import V
from lbv import families as F

PID = "C05"
LEVEL = "exploration"
DESIGN_REF = "DESIGN.md section 4 / C05"
CHUNK = 16
RULE = ("every 2-variable letter combination (3 convex families, Hessian rot2; thorough: all "
        "Hessians, n=1 too) x user letter {pure, scribble, samebuf} x scaler {None,0.37,3} x "
        "gradient mode {callable; None,2-point,3-point,cs on one family}; 12 non-convex "
        "objectives under tight budgets (maxls {1,3}, maxfun {4,9,3000}); all environment "
        "runs with <=2 deviations among the first 6 points; restart chains of length <=3 (split points incl. 0, i.e. a "
        "checkpoint without pairs) on the C06 base runs incl. the pair-less ones; oracle: for the result and every callback state with >=1 "
        "gradient computed, fun == s*(value the user returned at that x) and jac == "
        "s*(gradient the user returned at that x) BITWISE against the harness log, nfev == "
        "n0 + objective calls, njev == j0 + gradient calls; non-trivial = run with a "
        "rejected trial point (nfev > nit+1), a scaler, a hostile user or a restart; "
        "distinct = distinct case")
ASSUMPTIONS = [
    "comparison is with the logged return values, not with a re-evaluation",
    "a checkpoint does not record its scaling factor: restart chains use no scaler "
    "(DESIGN.md 4/C05, deliberate exclusion)",
]
SC = (None, 0.37, 3.0)


def cases(tier, variants):
    hs = ("rot2",) if tier == "quick" else None
    for c in F.convex_cases(2, variants, (3,), hesses=hs):
        for u in ("pure", "scribble", "samebuf"):
            for si in range(3):
                if tier == "quick" and u != "pure" and si == 1:
                    continue
                yield dict(c, part="e1", user=u, sc=si, jac="callable")
    for jac in (None, "2-point", "3-point", "cs"):
        for c in F.convex_cases(2, variants, (3,), fams=("soft",), hesses=("rot2",)):
            yield dict(c, part="e1", user="scribble", sc=2, jac=jac)
    for v in variants:
        for fam in F.NONCONVEX:
            for n in (2, 3):
                for start in ("in", "vertex"):
                    for mls, mf in itertools.product((1, 3), (4, 9, 3000)):
                        for si in (0, 2):
                            yield dict(part="e1", kind="nonconvex", fam=fam, n=n, box="box",
                                       start=start, var=v, maxcor=3, user="pure", sc=si,
                                       jac="callable", maxls=mls, maxfun=mf)
    # stop letter: a target reached after a few iterations (the run leaves the loop right
    # after evaluating the new iterate)
    for c in F.convex_cases(2, variants, (3,), fams=("quart",), hesses=("rot2",)):
        for j in (1, 2, 4):
            yield dict(c, part="e1", user="pure", sc=0, jac="callable", tgt=j)
    for v in variants:
        for fam in ("rosenbrock", "styblinski_tang", "oscil"):
            for j in (1, 3, 6):
                for tc in (0, 1):
                    yield dict(part="e1", kind="nonconvex", fam=fam, n=3, box="box", start="in",
                               var=v, maxcor=3, user="pure", sc=0, jac="callable", tgt=j,
                               tcall=tc)
    yield from E.env_cases(6, 2, variants)
    # history letter: the objective is really redefined (rescaled by c at update call k)
    # while a callback watches: every state must carry the value and gradient of the
    # objective in force when it is handed over
    for b in H.base_runs(variants, maxcors=(3,), small=True):
        for k in (1, 3):
            for c in (0.5, 3.0):
                yield dict(b, part="updcb", k=k, c=c)
    # restart letter: the start handed to a restart differs from checkpoint.x in the last
    # bit (rebuilt from normalised variables, round trip through a file): whatever the
    # package does with it (the unchanged tree refuses), what it returns must be coherent
    for b in H.base_runs(variants, maxcors=(3,), small=True):
        for k in (1, 3):
            for extra in (0, 1):
                yield dict(b, part="pert", k=k, extra=extra)
            # restart whose (new) target is already met by the checkpoint: returns at once
            yield dict(b, part="pert", k=k, extra=1, tgtmet=1)
    mcs = (2, 5) if tier == "quick" else (1, 2, 3, 5)
    for b in H.base_runs(variants, maxcors=mcs):
        for r in (1, 2, 3):
            for sp in itertools.combinations((0, 1, 2, 4, 7), r):
                yield dict(b, part="chain", splits=list(sp))
    # the same chains under a finite-difference gradient (nfev != njev there)
    for b in H.base_runs(variants, maxcors=(3,), small=True):
        for r in (1, 2):
            for sp in itertools.combinations((0, 1, 3, 5), r):
                yield dict(b, part="chain", splits=list(sp), fd="2-point")


def coherent(st, obs, s, what, callable_jac):
    out = []
    xb = np.asarray(st.x, float).tobytes()
    if st.njev < 1:
        return out
    if xb not in obs.flog:
        out.append((f"{what}_x_never_evaluated", dict(x=st.x)))
        return out
    if not float(st.fun) == obs.flog[xb] * s:
        out.append((f"{what}_fun_not_the_value_at_x", dict(fun=float(st.fun),
                                                           logged=obs.flog[xb] * s)))
    if callable_jac:
        if xb not in obs.glog:
            out.append((f"{what}_gradient_never_computed_at_x", {}))
        elif not np.array_equal(np.asarray(st.jac), obs.glog[xb] * s):
            out.append((f"{what}_jac_not_the_gradient_at_x", dict(jac=st.jac,
                                                                  logged=obs.glog[xb] * s)))
    return out


def run(case):
    from lbfgsb import minimize_lbfgsb
    part = case["part"]
    viol = []
    if part == "env":
        try:
            res, its, env, kw = E.env_run(case)
        except np.linalg.LinAlgError:
            # a lying environment can hand over pairs whose middle matrix is numerically
            # indefinite: the factorisation fails.  Not this property's business (DESIGN.md
            # section 1, Exceptions): counted in the evidence, not judged.
            return dict(viol=[], outcome="LinAlgError_in_lying_environment",
                        stats={"env_linalg_error": 1})
        xb = np.asarray(res.x, float).tobytes()
        if res.nfev != env.nf:
            viol.append(V("nfev_differs_from_calls", nfev=int(res.nfev), calls=env.nf))
        if res.njev != env.ng:
            viol.append(V("njev_differs_from_calls", njev=int(res.njev), calls=env.ng))
        for what, st in [("result", res)] + [("callback", s_) for _, s_ in its]:
            xb = np.asarray(st.x, float).tobytes()
            if st.njev >= 1 and xb in env.table:
                if float(st.fun) != env.table[xb][0]:
                    viol.append(V(f"{what}_fun_not_the_value_at_x", fun=float(st.fun),
                                  logged=env.table[xb][0]))
                if not np.array_equal(np.asarray(st.jac), env.table[xb][1]):
                    viol.append(V(f"{what}_jac_not_the_gradient_at_x"))
            elif st.njev >= 1:
                viol.append(V(f"{what}_x_never_evaluated"))
        return dict(viol=viol[:4], outcome=f"env|{res.message}",
                    nontrivial=core.case_hash(case) if res.nfev > res.nit + 1 else None)
    p = F.problem_of(case)
    if part == "updcb":
        k, c = case["k"], case["c"]
        sc, ncall, states = [1.0], [0], []

        def upd(x, f0, f0_old, grad, X, G):
            ncall[0] += 1
            if ncall[0] - 1 == k:
                sc[0] = c
                return c * f0, c * f0_old, c * grad, type(G)(c * q for q in G)
            return f0, f0_old, grad, G

        def cb(x, st):
            states.append((sc[0], copy.deepcopy(st)))
            return False
        res = minimize_lbfgsb(x0=p.x0.copy(), fun=lambda x: sc[0] * p.f(x),
                              jac=lambda x: sc[0] * np.asarray(p.g(x), float),
                              bounds=p.bounds.copy(), maxcor=case["maxcor"], maxiter=8,
                              ftol=-10.0, gtol=1e-12, update_fun_def=upd, callback=cb)
        for i, (s_now, st) in enumerate(states + [(sc[0], res)]):
            xx = np.asarray(st.x, float)
            wf, wg = s_now * p.f(xx), s_now * np.asarray(p.g(xx), float)
            if abs(float(st.fun) - wf) > 1e-12 * (1 + abs(wf)):
                viol.append(V("state_fun_not_the_value_of_the_objective_in_force", state=i + 1,
                              fun=float(st.fun), want=wf))
            if np.max(np.abs(np.asarray(st.jac) - wg)) > 1e-12 * (1 + np.max(np.abs(wg))):
                viol.append(V("state_jac_not_the_gradient_of_the_objective_in_force",
                              state=i + 1, jac=st.jac, want=wg))
        return dict(viol=viol[:4], outcome="updcb",
                    nontrivial=core.case_hash(case) if len(states) > k else None)
    if part == "pert":
        obs = F.Obs(p.f, p.g, p.lb, p.ub)
        k = case["k"]
        ck = H.solve(p, case, k, fun=obs.fun, jac=obs.jac)
        if not H.stopped_by_maxiter(ck, k):
            return dict(viol=[], outcome="parent_stopped_early", stats={"skipped": 1})
        x1 = np.nextafter(np.asarray(ck.x, float), np.inf)
        x1 = np.where(x1 > p.ub, np.nextafter(np.asarray(ck.x, float), -np.inf), x1)
        kwt = {}
        if case.get("tgtmet"):
            x1 = np.array(ck.x, copy=True)
            kwt["ftarget"] = float(ck.fun) + 1.0
        try:
            r = minimize_lbfgsb(x0=x1, fun=obs.fun, jac=obs.jac, bounds=p.bounds.copy(),
                                maxcor=case["maxcor"], maxiter=k + case["extra"], ftol=0.0,
                                gtol=1e-10, checkpoint=copy.deepcopy(ck), **kwt)
        except core.CaseTimeout:
            raise
        except Exception as e:
            return dict(viol=[], outcome="pert|refused:" + type(e).__name__,
                        nontrivial=core.case_hash(case))
        for s_, d in coherent(r, obs, 1.0, "result", True):
            viol.append(V(s_, **d))
        return dict(viol=viol[:4], outcome="pert|accepted", nontrivial=core.case_hash(case))
    if part == "chain":
        obs = F.Obs(p.f, p.g, p.lb, p.ub)
        ck = None
        links = 0
        for k in case["splits"] + [case["splits"][-1] + 2]:
            nf0, ng0 = obs.nf, obs.ng
            n0 = (int(ck.nfev), int(ck.njev)) if ck is not None else (0, 0)
            fd = case.get("fd")
            r = H.solve(p, case, k, checkpoint=copy.deepcopy(ck) if ck is not None else None,
                        fun=obs.fun, jac=(fd or obs.jac))
            links += 1
            if fd:
                if r.nfev != n0[0] + (obs.nf - nf0):
                    viol.append(V("counters_do_not_continue_over_restart", link=links,
                                  nfev=int(r.nfev), ck_nfev=n0[0], calls=obs.nf - nf0))
                # number of gradient computations: differential against the uninterrupted
                # run stopped at the same iteration (same iterate => same history)
                u = H.solve(p, case, k, jac=fd)
                if H.relerr(u.x, r.x) <= 1e-8 and u.nit == r.nit and \
                        (u.njev != r.njev or u.nfev != r.nfev):
                    viol.append(V("counters_differ_from_uninterrupted_run", link=links,
                                  nfev=int(r.nfev), njev=int(r.njev), u_nfev=int(u.nfev),
                                  u_njev=int(u.njev)))
                xb = np.asarray(r.x, float).tobytes()
                if r.njev >= 1 and xb in obs.flog and float(r.fun) != obs.flog[xb]:
                    viol.append(V("result_fun_not_the_value_at_x", link=links))
                ck = r
                if not H.stopped_by_maxiter(r, k):
                    break
                continue
            if r.nfev != n0[0] + (obs.nf - nf0) or r.njev != n0[1] + (obs.ng - ng0):
                viol.append(V("counters_do_not_continue_over_restart", link=links,
                              nfev=int(r.nfev), ck_nfev=n0[0], calls=obs.nf - nf0,
                              njev=int(r.njev), ck_njev=n0[1], gcalls=obs.ng - ng0))
            for s_, d in coherent(r, obs, 1.0, "result", True):
                viol.append(V(s_, link=links, **d))
            ck = r
            if not H.stopped_by_maxiter(r, k):
                break
        return dict(viol=viol[:4], outcome=f"chain{links}", nontrivial=core.case_hash(case))
    jac = case["jac"]
    if jac == "cs":
        try:
            p.f(p.x0 + 1e-20j)
        except Exception:
            return dict(viol=[], outcome="cs_unsupported", stats={"skipped": 1})
    s = SC[case["sc"]]
    obs = F.Obs(p.f, p.g, p.lb, p.ub, user=case["user"])
    states = []
    kw = dict(maxcor=case["maxcor"], maxls=case.get("maxls", 20), maxfun=case.get("maxfun", 3000),
              maxiter=40, ftol=1e-13, gtol=1e-9)
    if case.get("tgt"):
        vals = []
        try:
            minimize_lbfgsb(x0=p.x0.copy(), fun=p.f, jac=p.g, bounds=p.bounds,
                            callback=lambda x, st: vals.append(float(st.fun)) and False, **kw)
        except Exception:
            vals = []
        j = case["tgt"]
        if len(vals) <= j or not vals[j - 1] - vals[j] > 1e-9 * (1 + abs(vals[j])):
            return dict(viol=[], outcome="no_target_slot", stats={"skipped": 1})
        tval = 0.5 * (vals[j - 1] + vals[j])
        kw["ftarget"] = (lambda: tval) if case.get("tcall") else tval
    try:
        res = minimize_lbfgsb(x0=p.x0.copy(), fun=obs.fun,
                              jac=obs.jac if jac == "callable" else jac, bounds=p.bounds,
                              gradient_scaler=(None if s is None else (lambda *a: s)),
                              callback=lambda x, st: states.append(copy.deepcopy(st)) and False,
                              **kw)
    except core.CaseTimeout:
        raise
    except Exception as e:
        return dict(viol=[], outcome="exception:" + type(e).__name__, stats={"exceptions": 1})
    sv = 1.0 if s is None else s
    if res.nfev != obs.nf:
        viol.append(V("nfev_differs_from_calls", nfev=int(res.nfev), calls=obs.nf))
    if jac == "callable" and res.njev != obs.ng:
        viol.append(V("njev_differs_from_calls", njev=int(res.njev), calls=obs.ng))
    for what, st in [("result", res)] + [("callback", s_) for s_ in states]:
        for s_, d in coherent(st, obs, sv, what, jac == "callable"):
            viol.append(V(s_, **d))
    nt = res.nfev > res.nit + 1 or s is not None or case["user"] != "pure"
    return dict(viol=viol[:4], outcome=str(res.message),
                nontrivial=core.case_hash(case) if nt else None)
