"""C18 - the returned inverse-Hessian operator is built from genuine curvature pairs."""
import copy
import itertools

import numpy as np

from lbv import core, env as E, hist as H
from lbv.core import V
from lbv import families as F
from lbv.props import c13

PID = "C18"
LEVEL = "exploration"
DESIGN_REF = "DESIGN.md section 4 / C18"
CHUNK = 8
RULE = ("(a) 15 objectives x n<=3 x boxes x starts x maxls {1,3,20} x maxfun {6,20,3000} x "
        "maxcor {1,3} x user letter {pure, scribble, samebuf}: every callback state and the "
        "result; (b) every split k in 1..8 of the C06 base runs restarted for 3 iterations; "
        "(c) the C13 objective-redefinition cases (re-weight/rescale at every update call); "
        "(d) the diagonal utility on dimensions 1..30 x 1..12 pairs x 5 pair generators (axis, dense, ill-scaled, a variable with zero gradient change, a variable living at a 1e-18 scale); "
        "oracle: #pairs <= maxcor, a provenance search finds a chronological subsequence of "
        "{x0, reported iterates} whose consecutive differences equal sk BITWISE and whose "
        "logged user gradients' differences equal yk BITWISE (pairs inherited from a "
        "checkpoint: equal to the checkpoint's most recent pairs to 1e-8), s.y > 0 for every "
        "pair, extract_hess_inv_diag == diag(todense()) to 1e-10; non-trivial = state with "
        ">= 2 pairs or after a skipped/evicted pair; distinct = distinct case")
ASSUMPTIONS = [
    "the retained iterates are among x0 and the first callback arguments",
    "SciPy's LbfgsInvHessProduct.todense() is the dense matrix of the operator",
]


def cases(tier, variants):
    for v in variants:
        for n in (1, 2, 3):
            probs = []
            for fam in F.FAMS:
                for box, start in (("free", "in"), ("box", "ub")):
                    probs.append(dict(kind="convex", fam=fam, hess=F.hess_names(n)[-1], n=n,
                                      boxes=[box] * n,
                                      start=[start if i == 0 else "in" for i in range(n)],
                                      minloc=F.tile(["below", "inside", "above"], n), var=v))
            for fam in F.NONCONVEX:
                if fam in ("rosenbrock", "beale") and n < 2:
                    continue
                for box, start in (("free", "in"), ("box", "face")):
                    probs.append(dict(kind="nonconvex", fam=fam, n=n, box=box, start=start, var=v))
            for pr in probs:
                for mls, mf, mc in itertools.product((1, 2, 3, 20), (6, 20, 3000), (1, 3)):
                    for u in ("pure", "scribble", "samebuf"):
                        yield dict(pr, part="run", maxls=mls, maxfun=mf, maxcor=mc, user=u)
    for mls, mc in itertools.product((1, 2, 3), (1, 2, 3)):
        yield dict(kind="nonconvex", fam="coswell2", n=2, box="free", start="in", var=0,
                   part="run", maxls=mls, maxfun=3000, maxcor=mc, user="pure")
    mcs = (2, 5) if tier == "quick" else (1, 2, 3, 5)
    for b in H.base_runs(variants, maxcors=mcs):
        for k in range(1, 9):
            yield dict(b, part="restart", k=k)
        if b["maxcor"] >= 5:
            for k in (6, 8):
                for m2 in (1, 2):
                    yield dict(b, part="restart", k=k, m2=m2)
    for b in H.base_runs(variants, maxcors=(2, 3), small=(tier == "quick")):
        for k in range(0, 8):
            for rw in c13.REWRITES:
                yield dict(b, part="rw", k=k, rw=rw)
        # arbitrary rewrites (flip / anti-curvature), also with a stop criterion firing at
        # the very iteration of the rewrite: what the *returned* operator then carries
        for k in range(2, 8):
            npts = min(b["maxcor"] + 1, k + 1)
            for mask in range(1, 2 ** npts):
                for stop in (False, True):
                    yield dict(b, part=("flip" if mask % 3 else "anti"), k=k, mask=mask,
                               stop=stop, inplace=bool(mask % 2), via="c13")
    # lying environments (answers replaced at up to 2 of the first 6 distinct points):
    # rejected pairs, failed line searches and memory resets in every order
    yield from E.env_cases(6, 2, variants)
    for v in variants:
        for dim in range(1, 31):
            for npairs in range(1, 13):
                yield dict(part="diag", var=v, dim=dim, npairs=npairs)


def check_pairs(st, pts, grs, maxcor, what):
    out = []
    sk, yk = st.hess_inv.sk, st.hess_inv.yk
    if sk.shape != yk.shape:
        return [(f"{what}_sk_yk_shapes_differ", {})]
    if sk.shape[0] > maxcor:
        out.append((f"{what}_more_pairs_than_maxcor", dict(n=int(sk.shape[0]), maxcor=maxcor)))
    if sk.shape[0] and sk.size:
        for a, b in zip(sk, yk):
            if not float(a @ b) > 0:
                out.append((f"{what}_pair_without_positive_curvature", dict(sy=float(a @ b))))
                break
        if c13.chain_ok(pts, grs, list(sk), list(yk)) is None:
            out.append((f"{what}_pairs_are_not_differences_of_visited_points_and_gradients",
                        dict(npairs=int(sk.shape[0]))))
    return out


def run(case):
    from lbfgsb import minimize_lbfgsb, extract_hess_inv_diag
    part = case["part"]
    viol = []
    if part == "env":
        try:
            res, its, env, kw = E.env_run(case)
        except np.linalg.LinAlgError:
            return dict(viol=[], outcome="LinAlgError_in_lying_environment",
                        stats={"env_linalg_error": 1})
        pts = [env.x0] + [x for x, _ in its]
        if not any(np.array_equal(res.x, q) for q in pts):
            pts.append(np.array(res.x, copy=True))
        grs = [env.table[np.asarray(q, float).tobytes()][1]
               if np.asarray(q, float).tobytes() in env.table else np.full(2, np.nan) for q in pts]
        for what, st in [(f"callback{i + 1}", s_) for i, (_, s_) in enumerate(its)] + [("result", res)]:
            sk, yk = st.hess_inv.sk, st.hess_inv.yk
            if sk.size and sk.shape[0] > kw["maxcor"]:
                viol.append(V("more_pairs_than_maxcor", state=what))
            if sk.size and c13.chain_ok(pts, grs, list(sk), list(yk)) is None:
                viol.append(V("pairs_are_not_differences_of_visited_points_and_gradients",
                              state=what, npairs=int(sk.shape[0])))
                break
            if sk.size and any(not float(a @ b) > 0 for a, b in zip(sk, yk)):
                viol.append(V("pair_without_positive_curvature", state=what))
                break
        return dict(viol=viol[:3], outcome=f"env|{res.message}",
                    nontrivial=core.case_hash(case) if res.nit >= 2 else None)
    if part == "diag":
        from scipy.optimize import LbfgsInvHessProduct
        n, m, v = case["dim"], case["npairs"], case["var"]
        nex = 0
        for gen in ("axis", "dense", "illscaled", "linearvar", "tinyvar"):
            S, Y = [], []
            for k in range(m):
                if gen == "axis":
                    s = np.zeros(n)
                    s[k % n] = 0.3 + 0.1 * k + 0.01 * v
                    y = s * (1.5 + (k % 3))
                elif gen == "dense":
                    s = np.sin(0.7 * k + 0.9 * np.arange(n) + 0.3 + v) * (0.2 + 0.05 * k)
                    y = (np.diag(1.0 + 0.3 * np.arange(n)) + 0.2) @ s
                elif gen == "illscaled":
                    s = np.cos(1.1 * k + 0.5 * np.arange(n) + v) * 10.0 ** ((k % 5) - 2)
                    y = s * 10.0 ** (3 - (k % 4)) + 1e-3 * np.roll(s, 1) * (n > 1)
                elif gen == "tinyvar":
                    # a variable living at a 1e-18 scale (steps far below machine epsilon in
                    # absolute terms, but not zero) next to ordinary ones; separable model
                    s = np.sin(0.7 * k + 0.9 * np.arange(n) + 0.3 + v) * (0.2 + 0.05 * k) + 0.03
                    dd = 1.0 + 0.3 * np.arange(n)
                    s[n // 2] *= 1e-18
                    dd[n // 2] *= 1e18 if k % 2 == 0 else 3e17
                    y = dd * s
                else:
                    # a variable the objective is linear in: it moves (s_j != 0) but its
                    # gradient component never changes (y_j == 0 in every pair)
                    s = np.sin(0.7 * k + 0.9 * np.arange(n) + 0.3 + v) * (0.2 + 0.05 * k) + 0.05
                    y = (np.diag(1.0 + 0.3 * np.arange(n)) + 0.2) @ s
                    y[n // 2] = 0.0
                    y[0] = 0.0 if n > 2 else y[0]
                if float(s @ y) <= 0:
                    y = s.copy()
                S.append(s)
                Y.append(y)
            op = LbfgsInvHessProduct(np.array(S), np.array(Y))
            d1 = np.asarray(extract_hess_inv_diag(op))
            d2 = np.diag(op.todense())
            nex += 1
            if d1.shape != d2.shape or not np.all(
                    np.abs(d1 - d2) <= 1e-10 * (np.abs(d2) + np.max(np.abs(d2)))):
                viol.append(V("diag_utility_differs_from_dense_diagonal", gen=gen, got=d1, want=d2))
        return dict(viol=viol, n_exec=nex, outcome="diag",
                    nontrivial=core.case_hash(case) if case["npairs"] >= 2 else None)
    if part == "rw" or case.get("via") == "c13":
        r = c13.run(case)
        keep = ("pair_without_curvature_after_rewrite",
                "pair_not_difference_of_rewritten_gradients",
                "result_pair_without_curvature_when_stopping_at_the_rewrite",
                "result_pair_not_difference_of_rewritten_gradients_when_stopping")
        return dict(viol=[v_ for v_ in r["viol"] if v_["symptom"] in keep],
                    outcome="redef|" + str(r.get("outcome")), nontrivial=r.get("nontrivial"))
    p = F.problem_of(case)
    if part == "restart":
        k = case["k"]
        ck = H.solve(p, case, k)
        if not H.stopped_by_maxiter(ck, k):
            return dict(viol=[], outcome="parent_stopped_early", stats={"skipped": 1})
        obs = F.Obs(p.f, p.g, p.lb, p.ub)
        its = []
        mc2 = case.get("m2", case["maxcor"])
        r = H.solve(p, case, k + 3, checkpoint=copy.deepcopy(ck), fun=obs.fun, jac=obs.jac,
                    maxcor=mc2,
                    callback=lambda x, st: its.append((np.array(x, copy=True), copy.deepcopy(st))) and False)
        pts = [np.array(ck.x, copy=True)] + [x for x, _ in its]
        grs = [np.array(ck.jac, copy=True)] + [obs.glog.get(x.tobytes()) for x, _ in its]
        for what, st in [(f"callback{i + 1}", s_) for i, (_, s_) in enumerate(its)] + [("result", r)]:
            sk, yk = st.hess_inv.sk, st.hess_inv.yk
            if sk.shape[0] > mc2:
                viol.append(V("more_pairs_than_maxcor_after_restart", n=int(sk.shape[0]),
                              maxcor=mc2, state=what))
            # split into inherited (leading) and new (trailing) pairs: the longest trailing
            # block with bitwise provenance in the new points
            ok = False
            for nnew in range(min(len(pts) - 1, sk.shape[0]), -1, -1):
                new_s, new_y = list(sk[sk.shape[0] - nnew:]), list(yk[yk.shape[0] - nnew:])
                if nnew and c13.chain_ok(pts, grs, new_s, new_y) is None:
                    continue
                old_s, old_y = sk[:sk.shape[0] - nnew], yk[:yk.shape[0] - nnew]
                mo = old_s.shape[0]
                if mo == 0:
                    ok = True
                    break
                cs, cy = ck.hess_inv.sk[-mo:], ck.hess_inv.yk[-mo:]
                # inherited pairs are the checkpoint's most recent ones *preceding* the new
                # block; when the new block is shorter than the iterations run (a skipped
                # update) alignment is still at the end of the checkpoint's list
                if cs.shape == old_s.shape and H.relerr(old_s, cs) <= 1e-8 and \
                        H.relerr(old_y, cy) <= 1e-8:
                    ok = True
                    break
            if not ok:
                viol.append(V("pairs_after_restart_have_no_provenance", state=what,
                              npairs=int(sk.shape[0])))
                break
            for a, b in zip(sk, yk):
                if not float(a @ b) > 0:
                    viol.append(V("pair_without_positive_curvature", state=what))
                    break
        return dict(viol=viol[:4], outcome=f"restart|pairs{r.hess_inv.sk.shape[0]}",
                    nontrivial=core.case_hash(case) if ck.hess_inv.sk.shape[0] >= 2 else None)
    obs = F.Obs(p.f, p.g, p.lb, p.ub, user=case["user"])
    its = []
    try:
        res = minimize_lbfgsb(x0=p.x0.copy(), fun=obs.fun, jac=obs.jac, bounds=p.bounds,
                              maxcor=case["maxcor"], maxls=case["maxls"], maxfun=case["maxfun"],
                              maxiter=30, ftol=1e-13, gtol=1e-9,
                              callback=lambda x, st: its.append((np.array(x, copy=True), copy.deepcopy(st))) and False)
    except core.CaseTimeout:
        raise
    except Exception as e:
        return dict(viol=[], outcome="exception:" + type(e).__name__, stats={"exceptions": 1})
    x0c = np.clip(p.x0, p.lb, p.ub)
    pts = [x0c] + [x for x, _ in its]
    if not any(np.array_equal(res.x, q) for q in pts):
        pts.append(np.array(res.x, copy=True))
    grs = [obs.glog.get(q.tobytes()) for q in pts]
    if any(g is None for g in grs):
        grs = [g if g is not None else np.full(p.n, np.nan) for g in grs]
    maxp = 0
    for what, st in [(f"callback{i + 1}", s_) for i, (_, s_) in enumerate(its)] + [("result", res)]:
        for s_, d in check_pairs(st, pts, grs, case["maxcor"], what.rstrip("0123456789")):
            viol.append(V(s_, state=what, **d))
        maxp = max(maxp, st.hess_inv.sk.shape[0] if st.hess_inv.sk.size else 0)
        if viol:
            break
    if res.hess_inv.sk.size and res.hess_inv.sk.shape[0] >= 1:
        d1 = np.asarray(extract_hess_inv_diag(res.hess_inv))
        d2 = np.diag(res.hess_inv.todense())
        if not np.all(np.abs(d1 - d2) <= 1e-10 * (np.abs(d2) + np.max(np.abs(d2)))):
            viol.append(V("diag_utility_differs_from_dense_diagonal", got=d1, want=d2))
    nt = maxp >= 2 or (len(its) > maxp)
    return dict(viol=viol[:4], outcome=f"{res.message}|pairs{min(maxp, 3)}",
                nontrivial=core.case_hash(case) if nt else None)
