"""C15 - the function wrapper never serves a stale value and counts every evaluation once
(engine E5: explicit-state BFS against a one-cell memo model + all histories to a depth)."""
import itertools
from collections import deque

import numpy as np

from lbv import core
from lbv.core import V

PID = "C15"
LEVEL = "model_checking"
DESIGN_REF = "DESIGN.md section 4 / C15"
CHUNK = 2
RULE = ("ops = {fun, grad, fun_and_grad} x points {a, b, c, a' (equal to a, other object and "
        "dtype), a~ (4 ulps from a)} + {scale:=1, scale:=2.5} + {caller overwrites the array it last passed} + {the next user-function call "
        "raises and the caller goes on}; "
        "user functions scribble on their argument and return a float, or (BFS and all histories to depth 3) one reused 0-d / 1-element array; modes callable, 2-point, 3-point, cs "
        "(with bounds), and (BFS + depth 3) jac=None with eps=1e-4, 2-point / 3-point with finite_diff_rel_step=1e-3; model = one memo cell (point, has_f, has_g) and a scale; BFS over "
        "all model states x 20 ops with every edge executed on a fresh real ScalarFunction "
        "by replaying the state's shortest history, and ALL histories to depth 4 (quick) / "
        "depth 5 over all 20 ops in 4 modes and depth 6 over the 15 call ops in callable mode (thorough, first variant; depth 4 under the other variants); oracle per step: "
        "value == fresh user value x current scale (bitwise; finite-difference gradient vs a "
        "fresh approx_derivative with the same options), user calls at the requested point "
        "== model expectation (0 if cached), nfev/ngev deltas == logged calls/computations; "
        "non-trivial = history with a repeated point or a scale change or an overwrite; "
        "distinct = distinct (mode, history)")
ASSUMPTIONS = [
    "the reference memo model: a value is cached for the last point requested only",
    "scipy.optimize._numdiff.approx_derivative is the reference for finite-difference gradients",
]
MODES = ("callable", "2-point", "3-point", "cs")
CALLS = [(k, p) for k in ("fun", "grad", "fg") for p in ("a", "b", "c", "a2", "an")]
# "fail": the next user-function invocation raises (the caller catches it and goes on)
# "mutret": the caller overwrites the gradient array it was last returned
OTHER = [("scale", 1.0), ("scale", 2.5), ("mut", None), ("fail", None), ("mutret", None)]
OPS = CALLS + OTHER
ABS = {"a": "a", "b": "b", "c": "c", "a2": "a", "an": "an"}


def pts(v):
    s = [0.0, 0.25, -0.375, 1.0][v]
    return {"a": np.array([0.5 + s, -1.25]), "b": np.array([1.125, 0.375 + s]),
            "c": np.array([0.0, 2.0 - s]),
            "a2": np.array([0.5 + s, -1.25], dtype=np.float32),
            # a distinct point 4 ulps away from a (equality vs near-equality of points)
            "an": np.array([(0.5 + s) + 4 * np.spacing(0.5 + s), -1.25])}


def Fv(x):
    return x[0] ** 2 + x[1] ** 2 + x[0] * x[1] + np.sin(x[0])


def Gv(x):
    return np.array([2 * x[0] + x[1] + np.cos(x[0]), 2 * x[1] + x[0]])


LB, UB = np.array([-3.0, -3.0]), np.array([3.0, 3.0])


# option letters of the finite-difference modes: jac=None with an absolute step `eps`, named
# schemes with a user relative step (documented semantics: h = eps, resp.
# h = rel_step * sign(x) * max(1, |x|))
OPTMODES = {"none@eps1e-4": (None, dict(epsilon=1e-4), dict(method="2-point", abs_step=1e-4)),
            "2-point@rel1e-3": ("2-point", dict(finite_diff_rel_step=1e-3),
                                dict(method="2-point", rel_step=1e-3)),
            "3-point@rel1e-3": ("3-point", dict(finite_diff_rel_step=1e-3),
                                dict(method="3-point", rel_step=1e-3))}


def fd_ref(mode, x):
    from scipy.optimize._numdiff import approx_derivative
    kw = dict(method=mode, rel_step=None, abs_step=None, bounds=(LB, UB))
    if mode in OPTMODES:
        kw = dict(dict(rel_step=None, abs_step=None, bounds=(LB, UB)), **OPTMODES[mode][2])
    return approx_derivative(lambda z: Fv(z), np.asarray(x, float), f0=Fv(np.asarray(x, float)), **kw)


def model_step(state, op, arg, mode):
    """state = (cell point, has_f, has_g, scale) -> (state', expected #f calls at the point,
    expected #gradient computations)"""
    cell, hf, hg, sc = state
    if op == "scale":
        return (cell, hf, hg, arg), 0, 0
    if op in ("mut", "mutret"):
        return state, 0, 0
    ap = ABS[arg]
    if cell != ap:
        cell, hf, hg = ap, False, False
    ef = eg = 0
    if op in ("fun", "fg") and not hf:
        ef += 1
        hf = True
    if op in ("grad", "fg") and not hg:
        if mode != "callable" and not hf:
            ef += 1
            hf = True
        eg += 1
        hg = True
    return (cell, hf, hg, sc), ef, eg


def execute(hist, mode, v, ret="float"):
    """Run a history on a fresh real object; returns (errors, impl abstract state or None).
    ret: how the user's objective hands its value back - a float, or one preallocated
    0-d / 1-element array refilled and returned at every call (buf0 / buf1)."""
    from lbfgsb.scalar_function import prepare_scalar_function
    P = pts(v)
    log = []

    armed = [False]
    retbuf = np.zeros(() if ret == "buf0" else (1,))

    class Boom(Exception):
        pass

    def fun(x):
        if armed[0]:
            armed[0] = False
            raise Boom()
        xc = np.array(x, copy=True)
        log.append(("f", xc))
        if np.isrealobj(x):
            x[...] = 123.0       # hostile but legal: scribble on the argument
            if ret != "float":
                retbuf[...] = Fv(xc)
                return retbuf
        return Fv(xc)

    def jac(x):
        if armed[0]:
            armed[0] = False
            raise Boom()
        xc = np.array(x, copy=True)
        log.append(("g", xc))
        x[...] = 321.0
        return Gv(xc)
    if mode in OPTMODES:
        sf = prepare_scalar_function(fun, P["a"].copy(), jac=OPTMODES[mode][0],
                                     bounds=(LB, UB), **dict(dict(epsilon=1e-8), **OPTMODES[mode][1]))
    else:
        sf = prepare_scalar_function(fun, P["a"].copy(), jac=jac if mode == "callable" else mode,
                                     bounds=(LB, UB), epsilon=1e-8)
    state = ("a", False, False, 1.0)
    last = None
    errs = []
    lastret = [None]
    uncertain = False      # after a failed evaluation the model no longer predicts counts
    for k, (op, arg) in enumerate(hist):
        n0 = len(log)
        nf0, ng0 = sf.nfev, sf.ngev
        if op == "fail":
            armed[0] = True
            continue
        if op == "mutret":
            if lastret[0] is not None:
                try:
                    lastret[0][...] = 777.0
                except (ValueError, TypeError):
                    pass
            continue
        prev_state = state
        state, exp_f, exp_g = model_step(state, op, arg, mode)
        if op == "scale":
            sf.scaling_factor = arg
            continue
        if op == "mut":
            if last is not None:
                last[...] = np.asarray(P["b"], dtype=last.dtype)
            continue
        p = P[arg].copy()
        last = p
        truth = np.asarray(P[arg], dtype=float)
        if uncertain and ABS[arg] != prev_state[0]:
            uncertain = False          # a new point resets the memo: the model is exact again
        try:
            out = getattr(sf, {"fun": "fun", "grad": "grad", "fg": "fun_and_grad"}[op])(p)
        except Boom:
            # nothing may be taken as cached for this point from now on; what the wrapper
            # remembers of a partially failed request is not specified: only the
            # freshness of later answers is checked until the point changes
            state = (ABS[arg], False, False, state[3])
            uncertain = True
            continue
        if armed[0]:
            uncertain = uncertain   # the armed failure was not consumed (cache hit): keep it
        if not np.array_equal(p, P[arg]):
            errs.append((k, "argument_modified", {}))
        new = log[n0:]
        fv = out if op == "fun" else (out[0] if op == "fg" else None)
        gv = out if op == "grad" else (out[1] if op == "fg" else None)
        if gv is not None and isinstance(gv, np.ndarray):
            lastret[0] = gv
        sc = state[3]
        if fv is not None and not fv == Fv(truth) * sc:
            errs.append((k, "stale_or_wrong_value", dict(got=fv, want=Fv(truth) * sc)))
        if gv is not None:
            if mode == "callable":
                ok = np.array_equal(gv, Gv(truth) * sc)
                want = Gv(truth) * sc
            else:
                want = fd_ref(mode, truth) * sc
                ok = np.shape(gv) == want.shape and bool(
                    np.all(np.abs(np.asarray(gv) - want) <= 1e-12 * (1 + np.abs(want))))
            if not ok:
                errs.append((k, "stale_or_wrong_gradient", dict(got=gv, want=want)))
        nfc = sum(1 for kk, _ in new if kk == "f")
        ngc = sum(1 for kk, _ in new if kk == "g")
        if uncertain:
            # after a failure: the answer above must be fresh; counts are not predicted
            state = (state[0], True if op in ("fun", "fg") or mode != "callable" else state[1],
                     True if op in ("grad", "fg") else state[2], state[3])
            continue
        if sf.nfev - nf0 != nfc:
            errs.append((k, "nfev_delta_differs_from_calls", dict(delta=sf.nfev - nf0, calls=nfc)))
        base = sum(1 for kk, x in new if kk == "f" and np.isrealobj(x)
                   and np.array_equal(x, truth))
        if base != exp_f:
            errs.append((k, "objective_calls_at_requested_point", dict(got=base, model=exp_f)))
        if mode == "callable":
            if ngc != exp_g:
                errs.append((k, "gradient_calls", dict(got=ngc, model=exp_g)))
        if sf.ngev - ng0 != exp_g:
            errs.append((k, "ngev_delta", dict(delta=sf.ngev - ng0, model=exp_g)))
    impl = None
    if uncertain or armed[0]:
        return errs, None, state
    try:
        cell = [n for n in ("a", "b", "c", "an") if np.array_equal(sf.x, P[n])]
        impl = (cell[0] if cell else "?", bool(sf.f_updated), bool(sf.g_updated),
                float(sf.scaling_factor))
    except AttributeError:
        pass
    # the model does not distinguish "has_g" from a stale flag when nothing is cached
    return errs, impl, state


def cases(tier, variants):
    for v in variants:
        for mode in OPTMODES:
            yield dict(part="bfs", var=v, mode=mode)
            for i in range(len(OPS)):
                for j in range(len(OPS)):
                    yield dict(part="hist", var=v, mode=mode, pre=[i, j], depth=3, alpha="all")
        for mode in MODES:
            yield dict(part="bfs", var=v, mode=mode)
            # user letter: the objective returns one reused 0-d / 1-element array
            for rt in ("buf0", "buf1"):
                yield dict(part="bfs", var=v, mode=mode, ret=rt)
                for i in range(len(OPS)):
                    for j in range(len(OPS)):
                        yield dict(part="hist", var=v, mode=mode, pre=[i, j], depth=3,
                                   alpha="all", ret=rt)
            if tier == "quick":
                for i in range(len(OPS)):
                    for j in range(len(OPS)):
                        yield dict(part="hist", var=v, mode=mode, pre=[i, j], depth=4, alpha="all")
            else:
                # depth 5 over all 20 ops under the first variant, depth 4 under the others;
                # depth 6 over the 15 call ops for the callable mode (first variant)
                d = 5 if v == variants[0] else 4
                for i in range(len(OPS)):
                    for j in range(len(OPS)):
                        yield dict(part="hist", var=v, mode=mode, pre=[i, j], depth=d, alpha="all")
                if mode == "callable" and v == variants[0]:
                    for i in range(len(CALLS)):
                        for j in range(len(CALLS)):
                            yield dict(part="hist", var=v, mode=mode, pre=[i, j], depth=6,
                                       alpha="calls")


def nontrivial(hist):
    seen = set()
    for op, arg in hist:
        if op in ("scale", "mut", "fail", "mutret"):
            return True
        if ABS[arg] in seen:
            return True
        seen.add(ABS[arg])
    return False


def run(case):
    mode, v = case["mode"], case["var"]
    rt = case.get("ret", "float")
    if case["part"] == "hist1":
        hist = [OPS[i] for i in case["h"]]
        errs, impl, st = execute(hist, mode, v, rt)
        viol = [V(s, step=k, **d) for k, s, d in errs]
        if impl is not None and impl != st:
            viol.append(V("model_state_mismatch", impl=impl, model=st))
        return dict(viol=viol, outcome="hist1", nontrivial=core.case_hash(case))
    if case["part"] == "bfs":
        init = ("a", False, False, 1.0)
        seen = {init: []}
        frontier = deque([init])
        viol, trans = [], 0
        while frontier:
            st = frontier.popleft()
            for oi, (op, arg) in enumerate(OPS):
                h = seen[st] + [oi]
                hist = [OPS[i] for i in h]
                errs, impl, mst = execute(hist, mode, v, rt)
                trans += 1
                sub = dict(part="hist1", var=v, mode=mode, h=h, ret=rt)
                for k, s, d in errs:
                    viol.append(V(s, _case=sub, step=k, **d))
                if impl is not None and impl != mst:
                    viol.append(V("model_state_mismatch", _case=sub, impl=impl, model=mst))
                if mst not in seen:
                    seen[mst] = h
                    frontier.append(mst)
        return dict(viol=viol[:20], n_exec=trans,
                    nontrivial=dict(keys=[f"{mode}-{rt}-{v}-{s}" for s in seen]),
                    outcomes={f"bfs_{mode}": 1},
                    mc=dict(states=len(seen), transitions=trans, validated=trans),
                    stats={"bfs_states": len(seen), "bfs_transitions": trans})
    alpha = OPS if case["alpha"] == "all" else CALLS
    pre = [alpha[i] for i in case["pre"]]
    viol, keys, nex = [], [], 0
    for L in range(0, case["depth"] - 1):
        for tail in itertools.product(range(len(alpha)), repeat=L):
            hist = pre + [alpha[i] for i in tail]
            errs, impl, mst = execute(hist, mode, v, rt)
            nex += 1
            h = [OPS.index(o) for o in hist]
            sub = dict(part="hist1", var=v, mode=mode, h=h, ret=rt)
            for k, s, d in errs:
                viol.append(V(s, _case=sub, step=k, **d))
            if impl is not None and impl != mst:
                viol.append(V("model_state_mismatch", _case=sub, impl=impl, model=mst))
            if nontrivial(hist):
                keys.append(f"{mode}-{rt}-{v}-{'.'.join(map(str, h))}")
            if len(viol) > 40:
                break
    return dict(viol=viol[:20], nontrivial=dict(keys=keys), n_exec=nex,
                outcomes={f"hist_{mode}": nex}, stats={"histories": nex})


def collect(extra, r):
    mc = r.get("mc")
    if mc:
        for k in ("states", "transitions", "validated"):
            extra[k] = extra.get(k, 0) + mc[k]


def finalize(agg, tier):
    e = agg["extra"]
    return dict(states=e.get("states", 0), transitions=e.get("transitions", 0),
                traces_validated_against_impl=e.get("validated", 0),
                explanation="states = memo-model states (cached point, has_f, has_g, scale) "
                            "reached by BFS, summed over 4 gradient modes and the variants; "
                            "every (state, op) edge was executed on a fresh real "
                            "ScalarFunction by replaying the state's shortest history; the "
                            "object's own (x, f_updated, g_updated, scaling_factor) read back "
                            "and compared with the model state")
