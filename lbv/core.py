"""
Core of the bounded-exhaustive explorer: case enumeration -> sharded execution on the
real code -> oracle -> known-finding matching -> replay artefacts -> evidence.

A *check module* (lbv/props/cXX.py) provides

    PID, LEVEL, RULE, ASSUMPTIONS, DESIGN_REF
    cases(tier, variants)  -> iterator of JSON-serialisable case dicts
    run(case)              -> dict(viol=[{symptom, detail}], nontrivial=<key|None>,
                                   outcome=<str>, stats={name: int}, graph=<optional>)
    finalize(agg, tier)    -> optional dict of extra coverage keys

Everything here is deterministic: no clock, no randomness feeds a decision (the wall
clock is only *reported*, and used for an explicit, reported, time cap).
"""
import os
import sys

sys.dont_write_bytecode = True
for _k in ("OMP_NUM_THREADS", "OPENBLAS_NUM_THREADS", "MKL_NUM_THREADS",
           "NUMEXPR_NUM_THREADS"):
    os.environ.setdefault(_k, "1")

REPO = os.environ.get("LBV_REPO", "/repo")
if REPO not in sys.path:
    sys.path.insert(0, REPO)

import hashlib  # noqa: E402
import importlib  # noqa: E402
import json  # noqa: E402
import multiprocessing as mp  # noqa: E402
import signal  # noqa: E402
import time  # noqa: E402
import traceback  # noqa: E402
import warnings  # noqa: E402
from collections import Counter  # noqa: E402

import numpy as np  # noqa: E402

VERIF = os.path.dirname(os.path.dirname(os.path.abspath(__file__)))
NVAR = 4
NPROC = int(os.environ.get("LBV_NPROC", str(min(16, os.cpu_count() or 1))))
CASE_TIMEOUT = float(os.environ.get("LBV_CASE_TIMEOUT", "600"))
MAX_REPLAYS = 12

warnings.simplefilter("ignore")
np.seterr(all="ignore")


# ----------------------------------------------------------------------------- utils
def jsonable(o):
    """Convert numpy things to plain JSON (floats keep full repr precision)."""
    if isinstance(o, dict):
        return {str(k): jsonable(v) for k, v in o.items()}
    if isinstance(o, (list, tuple)):
        return [jsonable(v) for v in o]
    if isinstance(o, np.ndarray):
        return [jsonable(v) for v in o.tolist()]
    if isinstance(o, (np.floating, float)):
        f = float(o)
        if f != f:
            return "nan"
        if f in (float("inf"), float("-inf")):
            return "inf" if f > 0 else "-inf"
        return f
    if isinstance(o, (np.integer,)):
        return int(o)
    if isinstance(o, (np.bool_,)):
        return bool(o)
    if isinstance(o, bytes):
        return o.hex()
    if o is None or isinstance(o, (str, int, bool)):
        return o
    return repr(o)


def case_hash(case):
    return hashlib.sha1(json.dumps(jsonable(case), sort_keys=True).encode()).hexdigest()[:12]


def V(symptom, _case=None, **detail):
    """A violation record; _case = the minimal single case when found inside a batch."""
    v = {"symptom": symptom, "detail": jsonable(detail)}
    if _case is not None:
        v["case"] = jsonable(_case)
    return v


class CaseTimeout(Exception):
    pass


def _alarm(signum, frame):
    raise CaseTimeout()


# ------------------------------------------------------------------------ worker side
_MOD = None


def _init_worker(modname):
    global _MOD
    _MOD = importlib.import_module(modname)
    warnings.simplefilter("ignore")
    np.seterr(all="ignore")
    try:
        signal.signal(signal.SIGALRM, _alarm)
    except Exception:
        pass


def _run_guarded(mod, case):
    try:
        signal.setitimer(signal.ITIMER_REAL, getattr(mod, "CASE_TIMEOUT", CASE_TIMEOUT))
    except Exception:
        pass
    try:
        r = mod.run(case)
    except CaseTimeout:
        r = dict(viol=[V("timeout", seconds=getattr(mod, "CASE_TIMEOUT", CASE_TIMEOUT))],
                 nontrivial=None,
                 outcome="timeout", stats={})
    except Exception as e:  # harness or unexpected library exception: surfaced, never hidden
        r = dict(viol=[V("harness_exception", exc=repr(e),
                         tb=traceback.format_exc()[-1500:])],
                 nontrivial=None, outcome="exception", stats={})
    finally:
        try:
            signal.setitimer(signal.ITIMER_REAL, 0)
        except Exception:
            pass
    r.setdefault("viol", [])
    r.setdefault("nontrivial", None)
    r.setdefault("outcome", "")
    r.setdefault("stats", {})
    return r


def _work(item):
    idx, case = item
    r = _run_guarded(_MOD, case)
    if r["viol"]:
        # re-execute before reporting: the same case must fail the same way
        r2 = _run_guarded(_MOD, case)
        s1 = sorted(v["symptom"] for v in r["viol"])
        s2 = sorted(v["symptom"] for v in r2["viol"])
        if s1 != s2:
            r["viol"] = [V("nondeterministic_verdict", first=s1, second=s2)]
    keep = bool(r["viol"]) or idx == 0 or idx % 997 == 0
    return idx, (case if keep else None), r


# ------------------------------------------------------------------- known findings
def load_known():
    p = os.path.join(VERIF, "known_findings.json")
    if not os.path.exists(p):
        return []
    with open(p) as fh:
        return json.load(fh).get("findings", [])


def _field(case, path):
    cur = case
    for k in path.split("."):
        if isinstance(cur, dict) and k in cur:
            cur = cur[k]
        else:
            return None
    return cur


def match_known(known, pid, case, viol):
    """A finding matches a violation when property, symptom and every listed case field
    agree (a listed value may be a list of admissible values)."""
    for kf in known:
        if kf.get("property") != pid:
            continue
        m = kf.get("match", {})
        syms = m.get("symptom")
        if syms is not None:
            syms = syms if isinstance(syms, list) else [syms]
            if viol["symptom"] not in syms:
                continue
        ok = True
        for path, want in m.get("case", {}).items():
            got = _field(case, path)
            want = want if isinstance(want, list) else [want]
            if got not in want:
                ok = False
                break
        if ok:
            return kf
    return None


# ------------------------------------------------------------------------- the runner
def run_check(modname, tier, seed, replay=None):
    mod = importlib.import_module(modname)
    pid = mod.PID
    if replay is not None:
        return _replay(mod, replay)

    t0 = time.time()
    cap = float(os.environ.get("LBV_TIME_CAP", "900" if tier == "quick" else "21600"))
    variants = [seed % NVAR] if tier == "quick" else list(range(NVAR))
    known = load_known()

    agg = dict(evaluations=0, top_cases=0, nontrivial=set(), outcomes=Counter(), stats=Counter(),
               graph_nodes=set(), graph_edges=set(), extra={})
    samples = {}
    violations = []          # (case, viol) not matched by a known finding
    known_hits = Counter()
    capped = False

    def witnesses():
        # counterexamples found earlier (on the pinned tree, on reverted repairs or on
        # seeded changes), kept as plain replayable cases and re-run on every invocation,
        # whatever the seed
        wd = os.path.join(VERIF, "witness", pid)
        if os.path.isdir(wd):
            for fn in sorted(os.listdir(wd)):
                if fn.endswith(".json"):
                    with open(os.path.join(wd, fn)) as fh:
                        yield json.load(fh)["case"]

    def gen():
        i = -1
        for i, c in enumerate(witnesses()):
            yield i, c
        for j, c in enumerate(mod.cases(tier, variants)):
            yield i + 1 + j, c

    ctx = mp.get_context("fork")
    nproc = max(1, NPROC)
    chunk = getattr(mod, "CHUNK", 8)
    with ctx.Pool(nproc, initializer=_init_worker, initargs=(modname,)) as pool:
        it = pool.imap_unordered(_work, gen(), chunksize=chunk)
        for idx, case, r in it:
            agg["evaluations"] += int(r.get("n_exec", 1))
            agg["top_cases"] += 1
            if r["nontrivial"] is not None:
                nt = r["nontrivial"]
                if isinstance(nt, dict):      # batch case: {"keys": [...]}
                    agg["nontrivial"].update(str(k) for k in nt["keys"])
                else:
                    agg["nontrivial"].add(json.dumps(jsonable(nt)))
            if r.get("outcomes"):
                agg["outcomes"].update(r["outcomes"])
            else:
                agg["outcomes"][str(r["outcome"])] += 1
            for k, v in r["stats"].items():
                agg["stats"][k] += v
            g = r.get("graph")
            if g:
                agg["graph_nodes"].update(g.get("nodes", ()))
                agg["graph_edges"].update(tuple(e) for e in g.get("edges", ()))
            if hasattr(mod, "collect"):
                mod.collect(agg["extra"], r)
            if case is not None and not r["viol"]:
                samples[idx] = case
            for v in r["viol"]:
                vcase = v.pop("case", None) or case
                kf = match_known(known, pid, vcase, v)
                if kf is not None:
                    known_hits[kf["id"]] += 1
                else:
                    violations.append((vcase, v))
            if time.time() - t0 > cap:
                capped = True
                pool.terminate()
                break

    # ---- report
    for kf in known:
        if kf.get("property") == pid and known_hits.get(kf["id"]):
            print(f"KNOWN-FINDING: property={pid} {kf['text']} "
                  f"[{known_hits[kf['id']]} explored cases]")
    repdir = os.path.join(os.environ.get("LBV_EVIDENCE_DIR") or VERIF, "replays")
    os.makedirs(repdir, exist_ok=True)
    seen = set()
    nrep = 0
    for case, v in violations:
        key = v["symptom"]
        if key in seen and nrep >= 3:
            continue
        if nrep >= MAX_REPLAYS:
            break
        seen.add(key)
        nrep += 1
        path = os.path.join(repdir, f"{pid}-{case_hash(case)}.json")
        with open(path, "w") as fh:
            json.dump(dict(property=pid, case=jsonable(case), violation=v), fh, indent=1)
        print(f"VIOLATION property={pid} replay={path}")
        print(f"  symptom={v['symptom']} detail={json.dumps(v['detail'])[:600]}")
    if violations:
        print(f"{pid}: {len(violations)} violation(s) over "
              f"{len({case_hash(c) for c, _ in violations})} case(s); symptoms: "
              f"{dict(Counter(v['symptom'] for _, v in violations))}")

    # ---- evidence
    keys = sorted(samples)
    pick = [samples[k] for k in ([keys[0], keys[len(keys) // 2], keys[-1]] if keys else [])]
    cov = dict(
        evaluations=agg["evaluations"],
        distinct_nontrivial=len(agg["nontrivial"]),
        rule=mod.RULE,
        samples=jsonable(pick) or [{"note": "no passing case retained"}],
        exhaustive=(not capped),
        variants=variants,
        distinct_outcomes=len(agg["outcomes"]),
        outcomes=dict(agg["outcomes"].most_common(40)),
        counters=dict(agg["stats"]),
        known_findings_hit=dict(known_hits),
    )
    if agg["graph_nodes"]:
        cov["activity_graph"] = dict(nodes=len(agg["graph_nodes"]),
                                     edges=len(agg["graph_edges"]))
    if capped:
        cov["cap"] = f"time cap {cap}s hit after {agg['evaluations']} cases"
    if hasattr(mod, "finalize"):
        cov.update(jsonable(mod.finalize(agg, tier) or {}))
    ev = dict(property_id=pid, tier=tier, seed=int(seed), level=mod.LEVEL, coverage=cov,
              assumptions=list(mod.ASSUMPTIONS), wall_s=round(time.time() - t0, 2),
              violations=len(violations))
    evdir = os.environ.get("LBV_EVIDENCE_DIR") or os.path.join(VERIF, "evidence")
    os.makedirs(evdir, exist_ok=True)
    with open(os.path.join(evdir, f"{pid}.json"), "w") as fh:
        json.dump(ev, fh, indent=1)
    print(f"{pid} tier={tier} seed={seed} executions={agg['evaluations']} "
          f"nontrivial={len(agg['nontrivial'])} outcomes={len(agg['outcomes'])} "
          f"violations={len(violations)} known={sum(known_hits.values())} "
          f"wall={ev['wall_s']}s exhaustive={not capped}")
    return 1 if violations else 0


def _replay(mod, path):
    with open(path) as fh:
        rec = json.load(fh)
    case = rec["case"]
    _init_worker(mod.__name__)
    r = _run_guarded(mod, case)
    known = load_known()
    bad = 0
    for v in r["viol"]:
        v.pop("case", None)
        kf = match_known(known, mod.PID, case, v)
        if kf is not None:
            print(f"KNOWN-FINDING: property={mod.PID} {kf['text']}")
        else:
            bad += 1
            print(f"VIOLATION property={mod.PID} replay={path}")
            print(f"  symptom={v['symptom']} detail={json.dumps(v['detail'])[:2000]}")
    if not r["viol"]:
        print(f"{mod.PID}: replayed case holds (outcome={r['outcome']})")
    return 1 if bad else 0
