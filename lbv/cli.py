import argparse
import os
import sys

from lbv import core


def main():
    ap = argparse.ArgumentParser()
    ap.add_argument("pid")
    ap.add_argument("--tier", default=os.environ.get("VERIF_TIER", "quick"),
                    choices=["quick", "thorough"])
    ap.add_argument("--replay", default=None)
    a = ap.parse_args()
    seed = int(os.environ.get("VERIF_SEED", "0") or 0)
    modname = "lbv.props." + a.pid.lower()
    sys.exit(core.run_check(modname, a.tier, seed, replay=a.replay))


if __name__ == "__main__":
    main()
