"""Engine E6: exhaustive synthetic inputs for the pure component routines
(generalized Cauchy point, subspace minimisation), shared by C08 and C09."""
import itertools

import numpy as np

from lbv import core
from lbv.core import V
from lbv import families as F
from lbv import refs

INF = np.inf

# numeric variants: bound positions, interior position, gradient component letters.
# Equal magnitudes among the gradient letters and equal distances to bounds produce
# *tied* breakpoints; 0.0 produces variables that never move.
CT = [
    dict(lo=-1.0, up=2.0, I=0.25, gv=[-3.0, -0.5, 0.0, 0.8, 2.5]),
    dict(lo=-0.6, up=1.5, I=0.45, gv=[-2.0, -0.7, 0.0, 0.7, 2.0]),
    dict(lo=0.5, up=4.0, I=1.2, gv=[-4.0, -1.0, 0.0, 0.25, 1.0]),
    dict(lo=-3.0, up=-1.0, I=-2.5, gv=[-1.5, -0.1, 0.0, 0.1, 6.0]),
]
BTL = ("free", "lo", "up", "box", "deg")


def bt(letter, v):
    t = CT[v]
    return {"free": (-INF, INF), "lo": (t["lo"], INF), "up": (-INF, t["up"]),
            "box": (t["lo"], t["up"]), "deg": (t["I"], t["I"])}[letter]


def positions(letter):
    # N = strictly inside but within 3e-9 of the lower bound ("on the bound" must be an
    # exact comparison: a variable that close is still free)
    return {"free": ("I",), "lo": ("L", "N", "I"), "up": ("I", "U"),
            "box": ("L", "N", "I", "U"), "deg": ("L",)}[letter]


def posval(letter, pos, v):
    lo, up = bt(letter, v)
    return {"L": lo, "U": up, "I": CT[v]["I"], "N": lo + 3e-9 * (1 + abs(lo))}[pos]


def pair_sets(n):
    """Memory contents: 0 pairs, 1, 2 (two sets), 3 pairs; + dense generic pairs."""
    e = np.eye(n)
    out = [[]]
    s1 = e[0] * 0.5
    y1 = s1 * 2.0
    out.append([(s1, y1)])
    if n >= 2:
        s2 = (e[0] + e[1]) * 0.3
        y2 = np.array([1.5, 0.4] + [0] * (n - 2)) * 0.3
        out.append([(s1, y1), (s2, y2)])
        s3 = e[1] * -0.7 + e[0] * 0.1
        y3 = s3 * 5 + e[0] * 0.2
        out.append([(s2, y2), (s3, y3)])
    if n >= 3:
        s4 = np.array([0.2, -0.3, 0.6] + [0] * (n - 3))
        y4 = np.array([0.5, -0.1, 3.0] + [0] * (n - 3))
        out.append([(s1, y1), (s2, y2), (s4, y4)])
    # dense generic pairs from an SPD matrix (every component of W non-zero)
    Hn = np.diag(1.0 + np.arange(n)) + 0.5
    for m in ((2,) if n < 4 else (1, 3, 5)):
        ps = []
        for k in range(m):
            s = np.sin(1.3 * k + 0.7 * np.arange(n) + 0.2) * (0.4 + 0.1 * k)
            ps.append((s, Hn @ s))
        out.append(ps)
    return out


def n_pair_sets(n):
    return len(pair_sets(n))


def syn_batches(ns, variants, third=None):
    for v in variants:
        for n in ns:
            for ps in range(n_pair_sets(n)):
                for k, boxes in enumerate(itertools.product(BTL, repeat=n)):
                    if third is not None and n >= 3 and k % 3 != third:
                        continue
                    # the near-bound position letter N is enumerated for n <= 2 only
                    yield dict(part="syn", n=n, var=v, ps=ps, boxes=list(boxes), noN=(n >= 3))


def tiled_batches(ns, variants):
    """every 2-variable (box, position, gradient) pattern tiled to dimension n"""
    for v in variants:
        for n in ns:
            for ps in range(n_pair_sets(n)):
                for boxes in itertools.product(BTL, repeat=2):
                    yield dict(part="syn", n=n, var=v, ps=ps, boxes=F.tile(list(boxes), n),
                               tiled=2)


def expand(batch):
    """sub-cases of a batch: all positions x all gradient letters (tiled: of the 2 base
    variables)."""
    n, v = batch["n"], batch["var"]
    base = batch.get("tiled") or n
    boxes = batch["boxes"]
    gv = CT[v]["gv"]
    def _pos(b):
        return tuple(q for q in positions(b) if not (batch.get("noN") and q == "N"))
    for pos in itertools.product(*[_pos(b) for b in boxes[:base]]):
        for gi in itertools.product(range(len(gv)), repeat=base):
            yield dict(part="syn1", n=n, var=v, ps=batch["ps"], boxes=boxes,
                       pos=F.tile(list(pos), n), gi=F.tile(list(gi), n))


def build_single(c):
    n, v = c["n"], c["var"]
    lb = np.array([bt(b, v)[0] for b in c["boxes"]], dtype=float)
    ub = np.array([bt(b, v)[1] for b in c["boxes"]], dtype=float)
    x = np.array([posval(b, p, v) for b, p in zip(c["boxes"], c["pos"])], dtype=float)
    g = np.array([CT[v]["gv"][i] for i in c["gi"]], dtype=float)
    if c.get("tiled"):
        # break the exact periodicity a little for the *values* of far-away variables so
        # the problem does not separate, keeping ties inside each period
        g = g * np.array([1.0 + 0.25 * (i // c["tiled"]) for i in range(n)])
    return x, g, lb, ub


_MATS = {}


def mats_for(n, ps):
    key = (n, ps)
    if key not in _MATS:
        pairs = pair_sets(n)[ps]
        assert all(float(s @ y) > 0 for s, y in pairs)
        _MATS[key] = refs.build_mats(pairs, n)
    return _MATS[key]


def fresh_mats(mats):
    """The routines must not modify the matrices; give each call its own copy anyway so
    a mutation cannot leak into the next sub-case, and compare afterwards."""
    from lbfgsb.bfgsmats import LBFGSB_MATRICES
    m = LBFGSB_MATRICES(mats.W.shape[0])
    for a in ("S", "Y", "D", "L", "W"):
        setattr(m, a, getattr(mats, a).copy())
    m.invMfactors = (mats.invMfactors[0].copy(), mats.invMfactors[1].copy())
    m.theta = mats.theta
    return m


def close(a, b, rtol, atol):
    return bool(np.all(np.abs(a - b) <= atol + rtol * np.maximum(np.abs(a), np.abs(b))))


# ------------------------------------------------------------------ the two oracles
def check_gcp(x, g, lb, ub, mats, it=1, unit=1.0):
    """Run the real get_cauchy_point and compare with the dense reference.  unit = the
    magnitude of the variables (absolute tolerances are multiples of it)."""
    from lbfgsb.cauchy import get_cauchy_point
    out = []
    pairs = refs.pairs_of_mats(mats)
    B, theta = refs.dense_B(pairs, x.size)
    x_in, g_in = x.copy(), g.copy()
    xc, c = get_cauchy_point(x, g, lb, ub, mats, it, -1, None)
    xc = np.asarray(xc, dtype=float)
    xr, t, tend = refs.ref_gcp(x_in, g_in, lb, ub, B)
    if not np.all(np.isfinite(xc)):
        out.append(("gcp_not_finite", dict(xc=xc)))
        return out, xr, B
    if (xc < lb).any() or (xc > ub).any():
        out.append(("gcp_infeasible", dict(xc=xc)))
    flat = False
    # Algorithm 778 updates the path derivatives incrementally (f' += ... + g_b^2 ...): when
    # the gradient components differ by orders of magnitude the small ones lose
    # (g_max/g_i)^2 * eps of relative accuracy in their displacement (met on intercepted
    # inputs only; the synthetic alphabet has g_max/g_min <= 60, where this term is < 1e-12).
    gmax = float(np.max(np.abs(g_in)))
    with np.errstate(divide="ignore", invalid="ignore"):
        amp = np.where(g_in != 0, (gmax / np.abs(g_in)) ** 2, 0.0)
    tolv = 1e-9 * (unit + np.maximum(np.abs(xc), np.abs(xr))) + \
        100 * np.finfo(float).eps * amp * np.abs(xr - x_in)
    if not bool(np.all(np.abs(xc - xr) <= tolv)):
        # Backward-error acceptance (met on intercepted inputs only: gradient components
        # 1e13 apart).  The map g -> GCP is discontinuous at g_i = 0 (a variable with a
        # zero component never moves, one with a tiny component travels arbitrarily
        # far, arbitrarily slowly), and Algorithm 778's curvature floor eps*f2_org makes
        # the routine treat a component below rounding level of |g| as zero.  The answer
        # is then exact for a gradient perturbed by < 1e-10*|g|_inf: same answer up to
        # rounding.  Anything else is wrong.
        gz = np.where(np.abs(g_in) <= 1e-10 * np.max(np.abs(g_in)), 0.0, g_in)
        xr2 = refs.ref_gcp(x_in, gz, lb, ub, B)[0] if not np.array_equal(gz, g_in) else None
        if xr2 is not None and close(xc, xr2, 1e-9, 1e-9 * unit):
            flat = True
        else:
            out.append(("gcp_wrong", dict(xc=xc, ref=xr, t=t, tend=tend)))
    else:
        # pinned exactly on the bound reached
        for i in range(x.size):
            if np.isfinite(t[i]) and t[i] < tend * (1 - 1e-9) - 1e-12 * unit:
                bnd = ub[i] if g_in[i] < 0 else lb[i]
                if xc[i] != bnd:
                    out.append(("gcp_not_pinned", dict(i=i, xc=xc, bound=bnd)))
                    break
    scale = unit * unit + abs(refs.model(xr, x_in, g_in, B))
    if refs.model(xc, x_in, g_in, B) > 1e-12 * scale:
        out.append(("gcp_model_increase", dict(m=refs.model(xc, x_in, g_in, B))))
    if pairs and np.any((xc != lb) & (xc != ub)) and not any(o[0] == "gcp_wrong" for o in out):
        cref = mats.W.T @ (xc - x_in)
        if np.shape(c) != cref.shape or not close(np.asarray(c), cref, 1e-8, 1e-9 * unit):
            out.append(("c_wrong", dict(c=c, ref=cref, xc=xc)))
    return out, (xc if flat else xr), B


def check_sub(x, g, lb, ub, mats, xcp, it=1):
    """Run the real subspace_minimization from the (reference) Cauchy point."""
    from lbfgsb.subspacemin import get_freev, subspace_minimization
    out = []
    pairs = refs.pairs_of_mats(mats)
    B, theta = refs.dense_B(pairs, x.size)
    c = mats.W.T @ (xcp - x) if pairs else np.zeros(mats.W.shape[1])
    free, Z, A = get_freev(xcp, lb, ub, it)
    x_in, g_in, xc_in = x.copy(), g.copy(), xcp.copy()
    xb = subspace_minimization(x, xcp, free, Z, A, c, g, lb, ub, mats)
    xb = np.asarray(xb, dtype=float).ravel()
    xbr, a, fr = refs.ref_sub(x_in, xc_in, g_in, lb, ub, B)
    if not np.all(np.isfinite(xb)):
        return out + [("sub_not_finite", dict(xb=xb))], len(fr)
    act = [i for i in range(x.size) if i not in fr]
    if any(xb[i] != xc_in[i] for i in act):
        out.append(("sub_moved_active", dict(xb=xb, xcp=xc_in)))
    if not close(xb, xbr, 1e-8, 1e-9):
        out.append(("sub_wrong", dict(xb=xb, ref=xbr, alpha=a, free=fr)))
    mc = refs.model(xc_in, x_in, g_in, B)
    mb = refs.model(xb, x_in, g_in, B)
    if mb > mc + 1e-12 * (1 + abs(mc)):
        out.append(("sub_model_increase", dict(mb=mb, mc=mc)))
    if F.pgnorm(x_in, g_in, lb, ub) > 0 and not float(g_in @ (xb - x_in)) < 0:
        out.append(("not_descent", dict(gd=float(g_in @ (xb - x_in)))))
    # "truncated by the largest factor <= 1 that keeps the point in the box": exactly.  A
    # point one ulp beyond a bound gives a direction with a zero maximum feasible step on
    # the next line search (spurious failure, memory wipe or abnormal termination).
    if (xb < lb).any() or (xb > ub).any():
        out.append(("sub_infeasible", dict(xb=xb, excess=float(np.max(np.maximum(lb - xb,
                                                                                 xb - ub))))))
    return out, len(fr)


def interceptor(which, on_call, on_return=None):
    """Context: wraps lbfgsb.main.<which>; on_call(args) is invoked *before* the real
    routine with the live arguments (the matrices object is mutated later by the solver,
    so inputs must be examined at call time)."""
    import lbfgsb.main as M

    class Ctx:
        def __enter__(self):
            self.orig = getattr(M, which)

            def wrapped(*a, **k):
                tok = on_call(a)
                ret = self.orig(*a, **k)
                if on_return is not None:
                    on_return(a, ret, tok)
                return ret
            setattr(M, which, wrapped)
            return self

        def __exit__(self, *e):
            setattr(M, which, self.orig)
    return Ctx()
