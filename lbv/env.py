"""Engine E2: environment-answer explorer, deviation-bounded.

The user's objective *is the environment*.  Default answer: a fixed convex quadratic on a
2-variable box with an active bound.  A deviation replaces the answer at the j-th
*distinct* evaluation point (answers are memoised per point, so the environment stays a
function) by a letter (f-letter, g-letter).  All runs with <= D deviations among the first
K distinct points are enumerated; D is iterated 0, 1, 2, ...
"""
import itertools

import numpy as np

from lbv import core  # noqa: F401

FLET = [None, 5.0, 1e-3, "eq0", -1e-3, -5.0]       # None = unchanged
GLET = [None, "flip", "zero", "x100"]
LETTERS = [(a, b) for a in range(len(FLET)) for b in range(len(GLET)) if (a, b) != (0, 0)]

ENVT = [
    dict(H=[[3.0, 1.0], [1.0, 2.0]], xs=[0.8, -0.4], lb=[-1.0, -1.0], ub=[2.0, 0.5],
         x0=[2.0, -1.0]),
    dict(H=[[2.0, -0.7], [-0.7, 4.0]], xs=[0.3, 1.7], lb=[-0.6, -1.1], ub=[1.3, 0.9],
         x0=[-0.6, 0.9]),
    dict(H=[[1.0, 0.2], [0.2, 7.0]], xs=[3.1, 2.2], lb=[1.1, 0.4], ub=[2.7, 3.3],
         x0=[1.1, 3.3]),
    dict(H=[[5.0, 2.0], [2.0, 1.5]], xs=[-2.2, -4.1], lb=[-3.3, -3.9], ub=[-1.2, -0.3],
         x0=[-1.2, -2.0]),
]

CFGS = [
    dict(maxiter=6, maxfun=30, maxls=20, ftol=0.0, gtol=1e-8, maxcor=3),
    dict(maxiter=6, maxfun=7, maxls=3, ftol=1e-3, gtol=1e-8, maxcor=2),
]


def env_cases(K, D, variants, cfgs=(0, 1), part="env"):
    for v in variants:
        for ci in cfgs:
            for d in range(D + 1):
                for idxs in itertools.combinations(range(K), d):
                    for lets in itertools.product(range(len(LETTERS)), repeat=d):
                        yield dict(part=part, var=v, cfg=ci,
                                   script=[[i, l] for i, l in zip(idxs, lets)], ndev=d)


class Env:
    def __init__(self, case):
        t = ENVT[case["var"]]
        self.H = np.array(t["H"])
        self.xs = np.array(t["xs"])
        self.lb = np.array(t["lb"])
        self.ub = np.array(t["ub"])
        self.x0 = np.array(t["x0"])
        self.script = {int(i): LETTERS[int(l)] for i, l in case["script"]}
        self.table = {}       # bytes -> (f, g)
        self.order = []       # distinct points in first-visit order
        self.f_first = None
        self.calls = []       # ('f'|'g', bytes)
        self.outside = 0
        self.nf = 0
        self.ng = 0

    def ans(self, x):
        key = np.asarray(x, dtype=float).tobytes()
        if key not in self.table:
            i = len(self.order)
            self.order.append(key)
            z = x - self.xs
            f = 0.5 * float(z @ (self.H @ z))
            g = self.H @ z
            if self.f_first is None:
                self.f_first = f
            lie = self.script.get(i)
            if lie:
                a, b = FLET[lie[0]], GLET[lie[1]]
                if a is not None:
                    f = self.f_first if a == "eq0" else f + a
                if b is not None:
                    g = {"flip": -g, "zero": 0 * g, "x100": 100 * g}[b]
            self.table[key] = (f, np.array(g, dtype=float))
        return self.table[key]

    def fun(self, x):
        self.nf += 1
        self.calls.append(("f", np.asarray(x, dtype=float).tobytes()))
        if not ((x >= self.lb) & (x <= self.ub)).all():
            self.outside += 1
        return self.ans(x)[0]

    def jac(self, x):
        self.ng += 1
        self.calls.append(("g", np.asarray(x, dtype=float).tobytes()))
        if not ((x >= self.lb) & (x <= self.ub)).all():
            self.outside += 1
        return self.ans(x)[1].copy()

    def value(self, x):
        """Environment's value at x (defined everywhere: a point never visited gets its
        answer now, following the script index it would have had)."""
        return self.ans(np.asarray(x, dtype=float))[0]


def env_run(case, **over):
    from lbfgsb import minimize_lbfgsb
    env = Env(case)
    kw = dict(CFGS[case["cfg"]])
    kw.update(over)
    its = []

    def cb(x, st):
        its.append((np.array(x, copy=True), st))
        return False
    res = minimize_lbfgsb(x0=env.x0.copy(), fun=env.fun, jac=env.jac,
                          bounds=np.array([env.lb, env.ub]).T, callback=cb, **kw)
    return res, its, env, kw
