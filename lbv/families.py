"""
Alphabets (DESIGN.md section 2): finite sets of structurally distinct representatives
for the continuous inputs, in NVAR numeric variant tables, and the instrumented user
callables through which every check observes the real code.
"""
import itertools

import numpy as np

from lbv import core  # noqa: F401  (sets sys.path for the repo)

INF = np.inf

# numeric variant tables: positions of bounds, starts, minimisers, rotation angle
VT = [
    dict(lo=-0.7, up=1.3, deg=0.3, inn=0.4, fin=0.1, below=-2.1, inside=0.55,
         above=2.9, th=0.7),
    dict(lo=-1.37, up=0.83, deg=-0.21, inn=0.17, fin=-0.3, below=-3.3, inside=0.29,
         above=2.2, th=1.1),
    dict(lo=0.61, up=3.17, deg=1.9, inn=1.43, fin=2.2, below=-0.8, inside=2.05,
         above=4.6, th=0.35),
    dict(lo=-5.3, up=-2.1, deg=-3.7, inn=-4.1, fin=-3.0, below=-7.9, inside=-3.3,
         above=-0.6, th=2.0),
]

BOXES = ("free", "lo", "up", "box", "deg")
MINLOCS = ("below", "inside", "above")
FAMS = ("qp", "quart", "soft")


def box_of(letter, v):
    t = VT[v]
    return {"free": (-INF, INF), "lo": (t["lo"], INF), "up": (-INF, t["up"]),
            "box": (t["lo"], t["up"]), "deg": (t["deg"], t["deg"])}[letter]


def starts_of(letter):
    return {"free": ("in",), "lo": ("lb", "in"), "up": ("ub", "in"),
            "box": ("lb", "in", "ub"), "deg": ("lb",)}[letter]


def start_value(letter, s, v):
    t = VT[v]
    lo, up = box_of(letter, v)
    if s == "lb":
        return lo
    if s == "ub":
        return up
    return t["fin"] if letter == "free" else t["inn"]


def var_letters(boxes=BOXES):
    """all (box, start, minloc) letters of one variable"""
    return [(b, s, m) for b in boxes for s in starts_of(b) for m in MINLOCS]


def hess_names(n):
    return ("h1", "h100") if n == 1 else ("diag", "rot2", "rot4")


def hessian(n, name, v):
    if n == 1:
        return np.array([[1.0 if name == "h1" else 100.0]])
    if name == "stiff":
        return np.diag(np.logspace(4, 7, n))
    if name == "diag":
        return np.diag(np.logspace(0, 2, n))
    c = 2 if name == "rot2" else 4
    th = VT[v]["th"]
    Q = np.eye(n)
    for i in range(n - 1):
        R = np.eye(n)
        cth, sth = np.cos(th + i), np.sin(th + i)
        R[i, i] = cth
        R[i + 1, i + 1] = cth
        R[i, i + 1] = -sth
        R[i + 1, i] = sth
        Q = Q @ R
    H = Q @ np.diag(np.logspace(0, c, n)) @ Q.T
    return (H + H.T) / 2


class Problem:
    pass


def convex_problem(case):
    """case: fam, hess, n, boxes[n], start[n], minloc[n], var."""
    n, v = case["n"], case["var"]
    H = hessian(n, case["hess"], v)
    t = VT[v]
    xs = np.array([t[m] for m in case["minloc"]], dtype=float)
    lb = np.array([box_of(b, v)[0] for b in case["boxes"]], dtype=float)
    ub = np.array([box_of(b, v)[1] for b in case["boxes"]], dtype=float)
    x0 = np.array([start_value(b, s, v) for b, s in zip(case["boxes"], case["start"])],
                  dtype=float)
    # letter "far": interior starts of variables with an infinite side are moved far away
    # along that side (gradient norms of 1e8..1e13 at the start)
    if case.get("far"):
        for i in range(n):
            if case["start"][i] == "in":
                if not np.isfinite(ub[i]):
                    x0[i] = xs[i] + case["far"]
                elif not np.isfinite(lb[i]):
                    x0[i] = xs[i] - case["far"]
    # letter "zero": the whole problem is translated so that the named bound value is
    # exactly 0.0 (0 is the one float that is falsy / has no sign: a special value for
    # parsers of bounds and for relative steps)
    z = case.get("zero")
    if z:
        off = {"lo": t["lo"], "up": t["up"], "deg": t["deg"]}[z]
        lb, ub, x0, xs = lb - off, ub - off, x0 - off, xs - off
    # letter "shift": the whole problem is translated by a constant, so that every
    # variable has a large magnitude throughout the run (absolute vs relative steps)
    if case.get("shift"):
        sh = float(case["shift"])
        lb, ub, x0, xs = lb + sh, ub + sh, x0 + sh, xs + sh
    fam = case["fam"]
    lam = float(np.linalg.eigvalsh(H)[-1])
    if fam == "qp":
        def f(x):
            z = x - xs
            return 0.5 * (z @ (H @ z))

        def g(x):
            return H @ (x - xs)

        def lip(*pts):
            return lam
    elif fam == "quart":
        def f(x):
            z = x - xs
            return 0.5 * (z @ (H @ z)) + 0.25 * np.sum(z ** 4)

        def g(x):
            z = x - xs
            return H @ z + z ** 3

        def lip(*pts):
            return lam + 3.0 * max(float(np.max((p - xs) ** 2)) for p in pts)
    elif fam == "soft":
        def f(x):
            z = x - xs
            # overflow-safe and complex-safe softplus: z + log1p(exp(-z)) for Re z > 0
            pos = np.real(z) > 0
            zz = np.where(pos, -z, z)
            return 0.5 * (z @ (H @ z)) + np.sum(np.where(pos, z, 0.0) + np.log1p(np.exp(zz)))

        def g(x):
            z = x - xs
            return H @ z + 0.5 * (1.0 + np.tanh(0.5 * z))

        def lip(*pts):
            return lam + 0.25
    else:
        raise ValueError(fam)
    # letter "narrow": the same problem in variables 1e-9 times smaller (box sides far
    # narrower than any finite-difference step): F(x) = f(x / narrow)
    if case.get("narrow"):
        nr = float(case["narrow"])
        f_, g_ = f, g
        f = lambda x: f_(x / nr)            # noqa: E731
        g = lambda x: g_(x / nr) / nr       # noqa: E731
        lb, ub, x0, xs = lb * nr, ub * nr, x0 * nr, xs * nr
    p = Problem()
    p.f, p.g, p.lb, p.ub, p.x0, p.H, p.xs, p.lip = f, g, lb, ub, x0, H, xs, lip
    p.bounds = bounds_rep(np.array([lb, ub]).T, case.get("brep"))
    p.n = n
    return p


def bounds_rep(bounds, rep):
    """letter: how the user writes the box - an (n,2) float array, a list of (min, max)
    pairs with +-inf, or the documented list of pairs with None for 'no bound'"""
    if rep in (None, "array"):
        return bounds
    if rep == "pairs":
        return [(float(a), float(b)) for a, b in bounds]
    if rep == "none":
        return [(None if a == -np.inf else float(a), None if b == np.inf else float(b))
                for a, b in bounds]
    raise ValueError(rep)


def tile(pattern, n):
    return [pattern[i % len(pattern)] for i in range(n)]


def convex_cases(n, variants, maxcors, fams=FAMS, hesses=None, boxes=BOXES, extra=None):
    """Every letter combination for dimension n (complete enumeration)."""
    letters = var_letters(boxes)
    for v in variants:
        for h in (hesses or hess_names(n)):
            for fam in fams:
                for combo in itertools.product(letters, repeat=n):
                    for m in maxcors:
                        c = dict(kind="convex", fam=fam, hess=h, n=n,
                                 boxes=[x[0] for x in combo], start=[x[1] for x in combo],
                                 minloc=[x[2] for x in combo], var=v, maxcor=m)
                        if extra:
                            c.update(extra)
                        yield c


def tiled_cases(n, base_n, variants, combos, fams=FAMS, boxes=BOXES):
    """Every base_n-variable letter pattern repeated cyclically up to dimension n.
    combos: list of (hess, maxcor)."""
    letters = var_letters(boxes)
    for v in variants:
        for h, m in combos:
            for fam in fams:
                for combo in itertools.product(letters, repeat=base_n):
                    yield dict(kind="convex", fam=fam, hess=h, n=n,
                               boxes=tile([x[0] for x in combo], n),
                               start=tile([x[1] for x in combo], n),
                               minloc=tile([x[2] for x in combo], n), var=v, maxcor=m,
                               tiled=base_n)


# --------------------------------------------------------------- non-convex families
def _bench(name):
    import lbfgsb
    return getattr(lbfgsb, name), getattr(lbfgsb, name + "_grad")


BENCH = ("ackley", "beale", "griewank", "quartic", "rastrigin", "rosenbrock", "sphere",
         "styblinski_tang")
NONCONVEX = BENCH + ("oscil", "expsum", "badscale", "linear", "coswell")
# objective undefined (nan) on part of the box: the solver must treat such trial points as
# "not better" and never accept them
UNDEFINED = ("xlogx",)
# objectives whose gradient is constant over long stretches: every candidate pair has
# y = 0 and is rejected, so runs carry an *empty* memory for several iterations
PAIRLESS = ("biglinear", "huber")


def nonconvex_fg(name, n):
    """Return (f, g) written with plain numpy (complex-safe where possible)."""
    if name in BENCH:
        return _bench(name)
    if name == "oscil":
        return (lambda x: x @ x + 3.0 * np.sum(np.sin(7.0 * x)),
                lambda x: 2.0 * x + 21.0 * np.cos(7.0 * x))
    if name == "expsum":
        return (lambda x: np.sum(x + np.exp(-10.0 * x)),
                lambda x: 1.0 - 10.0 * np.exp(-10.0 * x))
    if name == "badscale":
        w = np.array([1e6 if i % 2 == 0 else 1e-3 for i in range(n)])
        return (lambda x: 0.5 * np.sum(w * (x - 0.3) ** 2), lambda x: w * (x - 0.3))
    if name == "xlogx":
        with np.errstate(all="ignore"):
            return (lambda x: 5.0 * float(np.sum(x * np.log(x) - 0.3 * x)),
                    lambda x: 5.0 * (np.log(x) + 0.7))
    if name == "coswell":
        # smooth, non-convex, with negative-curvature regions between shallow wells:
        # pairs get rejected and line searches fail one after the other
        om = np.array([1.26 + 0.11 * i for i in range(n)])
        ph = np.array([2.33 + 0.37 * i for i in range(n)])
        am = np.array([1.54 - 0.2 * (i % 3) for i in range(n)])
        return (lambda x: float(np.sum(am * np.cos(om * x + ph)) + 1.1e-3 * np.sum(x ** 4)),
                lambda x: -am * om * np.sin(om * x + ph) + 4.4e-3 * x ** 3)
    if name == "barrier":
        # a convex quadratic whose implementation returns +inf beyond a hyperplane that
        # cuts the box (log-barrier style guard); the minimiser is on the allowed side
        cb = np.array([0.9 - 0.2 * (i % 3) for i in range(n)])

        def fb(x):
            if np.sum(np.real(x)) > 0.8 * n:
                return np.inf
            return 0.5 * np.sum((1.0 + 0.5 * np.arange(n)) * (x - cb) ** 2)
        return (fb, lambda x: (1.0 + 0.5 * np.arange(n)) * (x - cb))
    if name == "sinsum":
        # sum of sines plus a weak quadratic: wells separated by concave regions a few
        # units wide; in a box of comparable size steps are cut by the bounds while the
        # curvature along them is negative (rejected pairs next to kept ones)
        am = np.array([1.9 - 0.3 * (i % 3) + 0.1 * (i // 3) for i in range(n)])
        ph = np.array([0.8, -0.8, 1.0, 0.3, -1.4, 2.1, -0.2, 1.6, -2.3, 0.5, 2.8, -1.9][:n])
        return (lambda x: float(np.sum(am * np.sin(x + ph)) + 0.05 * np.sum(x ** 2)),
                lambda x: am * np.cos(x + ph) + 0.1 * x)
    if name == "coswell2":
        # instance and start taken from an independently written demonstration
        # (seeded/C18-4): a rejected pair immediately followed by a failed line search
        om = np.array([1.2596188837126614, 0.889168254601383])
        ph = np.array([2.333902289715485, 2.367093398284133])
        am = np.array([1.5414151151769264, 0.9963467456275489])
        cc = 0.0011143388500270248
        return (lambda x: float(np.sum(am * np.cos(om * x + ph)) + cc * np.sum(x ** 4)),
                lambda x: -am * om * np.sin(om * x + ph) + 4 * cc * x ** 3)
    if name in ("linear", "biglinear"):
        w = np.array([(-1.0) ** i * (1.0 + 0.37 * i) for i in range(n)])
        return (lambda x: w @ x, lambda x: w.copy())
    if name == "huber":
        c = np.array([0.3 * ((-1.0) ** i) for i in range(n)])
        dl = 0.5

        def fh(x):
            z = np.abs(x - c)
            return float(np.sum(np.where(z <= dl, 0.5 * z * z, dl * (z - 0.5 * dl))))

        def gh(x):
            z = x - c
            return np.where(np.abs(z) <= dl, z, dl * np.sign(z))
        return fh, gh
    raise ValueError(name)


def nonconvex_problem(case):
    """case: fam (name), n, box in {free, box, lo}, start in {in, face, vertex}, var."""
    n, v = case["n"], case["var"]
    t = VT[v]
    f, g = nonconvex_fg(case["fam"], n)
    bl = case.get("box", "box")
    # a box in the region where the benchmark functions are interesting
    lo, up = (-1.9 - 0.1 * v, 2.3 + 0.17 * v)
    if case["fam"] == "expsum":
        lo, up = (-6.0 - v, 4.0 + 0.3 * v)
    if case["fam"] in PAIRLESS:
        lo, up = (-21.0 - v, 17.0 + 0.5 * v)
    if case["fam"] == "coswell":
        lo, up = (-9.0 - v, 8.0 + 0.5 * v)
    if bl == "free":
        lb = np.full(n, -INF)
        ub = np.full(n, INF)
    elif bl == "lo":
        lb = np.full(n, lo)
        ub = np.full(n, INF)
    elif bl == "mixed":
        lb = np.array([lo if i % 2 == 0 else -INF for i in range(n)])
        ub = np.array([up if i % 3 != 1 else INF for i in range(n)])
    else:
        lb = np.full(n, lo)
        ub = np.full(n, up)
    s = case.get("start", "in")
    base = np.array([0.37 * t["th"] + 0.41 * ((-1) ** i) * (1 + 0.3 * i) for i in range(n)])
    if case["fam"] == "expsum":
        base = np.array([-5.0 + 0.3 * i + 0.1 * v for i in range(n)])
    if case["fam"] in PAIRLESS:
        base = np.array([7.0 * ((-1.0) ** (i + 1)) + 0.9 * i + 0.1 * v for i in range(n)])
    if case["fam"] == "coswell":
        base = np.array([5.2 * ((-1.0) ** (i + 1)) + 0.17 * i + 0.13 * v for i in range(n)])
    if case["fam"] == "coswell2":
        base = np.array([-5.21753330983786, 5.3847609028709975])
    if case["fam"] == "xlogx":
        base = np.array([2.1 - 0.35 * i + 0.03 * v for i in range(n)])   # inside the domain
    base = np.clip(base, np.where(np.isfinite(lb), lb + 0.05, -INF),
                   np.where(np.isfinite(ub), ub - 0.05, INF))
    x0 = base.copy()
    if s == "face":
        if np.isfinite(ub[0]):
            x0[0] = ub[0]
        elif np.isfinite(lb[0]):
            x0[0] = lb[0]
    elif s == "vertex":
        for i in range(n):
            if i % 2 == 0 and np.isfinite(lb[i]):
                x0[i] = lb[i]
            elif np.isfinite(ub[i]):
                x0[i] = ub[i]
            elif np.isfinite(lb[i]):
                x0[i] = lb[i]
    p = Problem()
    p.f, p.g, p.lb, p.ub, p.x0 = f, g, lb, ub, x0
    p.bounds = bounds_rep(np.array([lb, ub]).T, case.get("brep"))
    p.n = n
    return p


def problem_of(case):
    return convex_problem(case) if case.get("kind", "convex") == "convex" \
        else nonconvex_problem(case)


# ------------------------------------------------------------- instrumented callables
class Obs:
    """The user's callables as the harness plays them: logs every call, the exact point
    received (bytes), the exact value returned; optional hostile-but-legal behaviour."""

    def __init__(self, f, g, lb=None, ub=None, user="pure", fault=None):
        self.f0, self.g0 = f, g
        self.lb, self.ub = lb, ub
        self.user = user
        self.calls = []      # ('f'|'g', bytes)
        self.pts = []        # arrays (copies) in call order
        self.flog = {}       # bytes -> float returned
        self.glog = {}       # bytes -> ndarray returned (copy)
        self.outside = []    # (kind, index in calls, x)
        self.nf = 0
        self.ng = 0
        self._buf = None
        self.fault = fault   # callable(kind, idx) raising, or None
        self.ncall = 0
        self.nonfinite = 0   # objective values that were inf/nan at a *finite* point

    def _see(self, kind, x):
        xx = np.array(x, dtype=complex if np.iscomplexobj(x) else float, copy=True)
        xr = np.real(xx) if np.iscomplexobj(xx) else xx
        self.calls.append((kind, xr.tobytes()))
        self.pts.append(xr)
        if self.lb is not None:
            # (NaN-strict: a point with a NaN component is not inside the box)
            if not ((xr >= self.lb) & (xr <= self.ub)).all() or \
                    (xr[self.lb == self.ub] != self.lb[self.lb == self.ub]).any():
                self.outside.append((kind, len(self.calls) - 1, xr))
        return xx, xr

    def fun(self, x, *args):
        if self.fault is not None:
            self.fault("fun", self.nf)
        self.nf += 1
        xx, xr = self._see("f", x)
        val = self.f0(xx)
        if not np.iscomplexobj(xx):
            val = float(val)
            self.flog[xr.tobytes()] = val
            if not np.isfinite(val) and np.all(np.isfinite(xr)):
                self.nonfinite += 1
        if self.user == "scribble":
            try:
                x[...] = 1e9
            except Exception:
                pass
        return val

    def jac(self, x, *args):
        if self.fault is not None:
            self.fault("jac", self.ng)
        self.ng += 1
        xx, xr = self._see("g", x)
        val = np.array(self.g0(xx), dtype=float)
        self.glog[xr.tobytes()] = val.copy()
        if self.user == "scribble":
            try:
                x[...] = -1e9
            except Exception:
                pass
        if self.user == "samebuf":
            if self._buf is None:
                self._buf = np.empty_like(val)
            self._buf[...] = val
            return self._buf
        return val


def pgnorm(x, g, lb, ub):
    return float(np.max(np.abs(np.clip(x - g, lb, ub) - x)))


def pattern(x, lb, ub):
    return "".join("D" if lb[i] == ub[i] else "L" if x[i] <= lb[i] else
                   "U" if x[i] >= ub[i] else "F" for i in range(x.size))
