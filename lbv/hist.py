"""Engine E3: history explorer.  A base run is a real optimisation; the explorer visits
*every position on its history* (split iterations, chains of splits, call indices for
crashes and faults, iterations at which the objective is redefined)."""
import copy

import numpy as np

from lbv import core  # noqa: F401
from lbv import families as F


def base_runs(variants, maxcors=(1, 2, 3, 5), small=False):
    """The base problems of the history properties (C06, C07, C13, C18, C20)."""
    for v in variants:
        n = 3
        hs = F.hess_names(n) if not small else ("rot2",)
        for fam in (("quart", "soft") if not small else ("quart",)):
            for h in hs:
                for bl, boxes, start in (
                        ("free", ["free"] * n, ["in"] * n),
                        ("box", ["box"] * n, ["in", "lb", "in"]),
                        ("mixed", ["free", "box", "lo"], ["in", "ub", "in"])):
                    for m in maxcors:
                        yield dict(kind="convex", fam=fam, hess=h, n=n, boxes=boxes,
                                   start=start, minloc=["below", "inside", "above"], var=v,
                                   maxcor=m, label=f"{fam}-{h}-{bl}")
        for fam, n, box in (("rosenbrock", 2, "box"), ("rosenbrock", 4, "box"),
                            ("styblinski_tang", 3, "box"), ("biglinear", 3, "box"),
                            ("huber", 3, "free")):
            for m in maxcors:
                yield dict(kind="nonconvex", fam=fam, n=n, box=box, start="in", var=v,
                           maxcor=m, label=f"{fam}{n}")


def solve(p, case, maxiter, checkpoint=None, x0=None, fun=None, jac=None, **kw):
    from lbfgsb import minimize_lbfgsb
    args = dict(ftol=0.0, gtol=1e-10, maxfun=100000, maxcor=case["maxcor"])
    args.update(kw)
    if checkpoint is not None:
        x0 = np.array(checkpoint.x, copy=True)
    return minimize_lbfgsb(x0=(p.x0.copy() if x0 is None else x0), fun=fun or p.f,
                           jac=jac or p.g, bounds=p.bounds.copy(), maxiter=maxiter,
                           checkpoint=checkpoint, **args)


def stopped_by_maxiter(res, k):
    return res.nit == k and "ITERATIONS" in str(res.message)


def relerr(a, b):
    a, b = np.asarray(a, float), np.asarray(b, float)
    return float(np.max(np.abs(a - b)) / (1.0 + np.max(np.abs(b))))


def truncated(ck, m):
    from scipy.optimize import LbfgsInvHessProduct
    c = copy.deepcopy(ck)
    sk, yk = ck.hess_inv.sk, ck.hess_inv.yk
    if m < sk.shape[0]:
        c.hess_inv = LbfgsInvHessProduct(sk[-m:].copy(), yk[-m:].copy())
    return c


def same_state(a, b, fields=("x", "fun", "jac", "nfev", "njev", "nit")):
    """bitwise field-by-field comparison of two OptimizeResult; returns differing names"""
    bad = []
    for k in fields:
        u, w = a[k], b[k]
        if isinstance(u, np.ndarray) or isinstance(w, np.ndarray):
            if not np.array_equal(np.asarray(u), np.asarray(w)):
                bad.append(k)
        elif u != w:
            bad.append(k)
    for k in ("sk", "yk"):
        u, w = getattr(a.hess_inv, k), getattr(b.hess_inv, k)
        if u.shape != w.shape or not np.array_equal(u, w):
            bad.append(k)
    return bad
