import numpy as np, threading, time, itertools, collections, warnings
warnings.simplefilter('ignore')
from lbfgsb import minimize_lbfgsb, rosenbrock, rosenbrock_grad
class Sched:
    def __init__(self, bodies):
        self.n=len(bodies); self.bodies=bodies
        self.sem=[threading.Semaphore(0) for _ in bodies]
        self.ctl=threading.Semaphore(0)
        self.done=[False]*self.n; self.res=[None]*self.n; self.err=[None]*self.n
    def point(self,tid):
        self.ctl.release(); self.sem[tid].acquire()
    def _run(self,tid):
        self.sem[tid].acquire()
        try: self.res[tid]=self.bodies[tid](lambda:self.point(tid))
        except BaseException as e: self.err[tid]=e
        self.done[tid]=True; self.ctl.release()
    def execute(self,prefix):
        ths=[threading.Thread(target=self._run,args=(i,),daemon=True) for i in range(self.n)]
        for t in ths: t.start()
        choices=[]; points=[]; cur=0; i=0
        while not all(self.done):
            en=[t for t in range(self.n) if not self.done[t]]
            # canonical order: current first
            order=([cur] if cur in en else [])+[t for t in en if t!=cur]
            c=prefix[i] if i<len(prefix) else 0
            assert c<len(order)
            points.append(len(order)); choices.append(c)
            cur=order[c]; i+=1
            self.sem[cur].release(); self.ctl.acquire()
        for t in ths: t.join()
        return choices,points
def mkbody(x0,log):
    def body(pt):
        def f(x): pt(); log.append(x.copy()); return rosenbrock(x)
        def g(x): pt(); return rosenbrock_grad(x)
        return minimize_lbfgsb(x0=x0,fun=f,jac=g,bounds=np.array([[-2,2.]]*x0.size),maxiter=3,maxfun=6,maxcor=2)
    return body
xa=np.array([-1.2,1.0]); xb=np.array([0.5,-1.5,0.7])
solo=[mkbody(x,[])(lambda:None) for x in (xa,xb)]
def explore(bound):
    stack=[[]]; n=0; bad=0; t0=time.time()
    while stack:
        pre=stack.pop()
        la,lb_=[],[]
        s=Sched([mkbody(xa,la),mkbody(xb,lb_)])
        ch,pts=s.execute(pre); n+=1
        assert s.err==[None,None],s.err
        for r,so in zip(s.res,solo):
            if not (np.array_equal(r.x,so.x) and r.fun==so.fun and r.nfev==so.nfev and r.message==so.message): bad+=1
        # preemption count
        for i in range(len(pre),len(ch)):
            # cost: switching away (choice>0) when current still enabled counts; we approximate: any choice>0
            cost=sum(1 for c in ch[:i] if c>0)
            for alt in range(1,pts[i]):
                if cost+1<=bound: stack.append(ch[:i]+[alt])
    return n,bad,time.time()-t0
for b in [0,1,2]: print(b,explore(b))
