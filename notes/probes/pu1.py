import numpy as np, copy, logging, io, warnings
warnings.simplefilter('ignore')
from lbfgsb import minimize_lbfgsb, rosenbrock, rosenbrock_grad, get_gradient_projection_unit_scaling
def ro(a): a=np.array(a,dtype=float); a.setflags(write=False); return a
x0=ro([-1.2,1.0,0.3]); bnds=ro([[-2,2.]]*3)
kw=dict(fun=rosenbrock,jac=rosenbrock_grad,bounds=bnds,maxcor=3,ftol=0,gtol=1e-9)
a=minimize_lbfgsb(x0=x0,maxiter=5,**kw)
print('ro inputs ok', a.nit)
ck=copy.deepcopy(a)
for k in ('x','jac'): ck[k].setflags(write=False)
ck.hess_inv.sk.setflags(write=False); ck.hess_inv.yk.setflags(write=False)
snap=copy.deepcopy(ck)
for scaler in [None, lambda x,g,lb,ub:0.5, get_gradient_projection_unit_scaling]:
    try:
        b1=minimize_lbfgsb(x0=ck.x,maxiter=8,checkpoint=ck,gradient_scaler=scaler,**kw)
        b2=minimize_lbfgsb(x0=ck.x,maxiter=8,checkpoint=ck,gradient_scaler=scaler,**kw)
        print('restart ok', scaler is not None, np.array_equal(b1.x,b2.x), np.array_equal(ck.jac,snap.jac), np.array_equal(ck.x,snap.x))
    except Exception as e: print('restart EXC',scaler is not None,repr(e)[:80])
# iprint/logger influence
lg=logging.getLogger('q'); lg.addHandler(logging.StreamHandler(io.StringIO())); lg.setLevel(logging.INFO)
base=minimize_lbfgsb(x0=x0,maxiter=20,**kw)
for ip in [-1,0,1,50,99,100,101,1000]:
    r=minimize_lbfgsb(x0=x0,maxiter=20,iprint=ip,logger=lg,**kw)
    print(ip, np.array_equal(r.x,base.x), r.nfev==base.nfev, r.message==base.message)
