import numpy as np
from lbfgsb import minimize_lbfgsb, rosenbrock, rosenbrock_grad, rastrigin, rastrigin_grad, styblinski_tang, styblinski_tang_grad
cnt=0; tot=0; conv_up=0; worst=0
for (f,g) in [(rosenbrock,rosenbrock_grad),(rastrigin,rastrigin_grad),(styblinski_tang,styblinski_tang_grad)]:
  for n in [2,3,5]:
    for maxls in [1,2,3,5,20]:
      for maxfun in [3,5,8,13,50]:
        for s in range(4):
            r=np.random.default_rng(s)
            x0=r.uniform(-3,3,n)
            fs=[f(x0)]
            def cb(x,st): fs.append(st.fun)
            res=minimize_lbfgsb(x0=x0,fun=f,jac=g,bounds=np.array([[-4,4]]*n),maxls=maxls,maxfun=maxfun,callback=cb,maxiter=30)
            fs.append(res.fun)
            tot+=1
            inc=max([b-a for a,b in zip(fs,fs[1:])]+[0])
            if inc>0:
                cnt+=1; worst=max(worst,inc)
                if res.message.startswith('CONV'): conv_up+=1
print(cnt,tot,conv_up,worst)
