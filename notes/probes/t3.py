import numpy as np
from lbfgsb import minimize_lbfgsb
def mk(n, seed):
    r=np.random.default_rng(seed)
    Q=r.standard_normal((n,n)); Q,_=np.linalg.qr(Q)
    ev=np.logspace(0,2,n)
    H=Q@np.diag(ev)@Q.T; H=(H+H.T)/2
    b=r.standard_normal(n)*3
    return H,b
mx=[]
for seed in range(300):
    n=1+seed%6
    H,b=mk(n,seed)
    r=np.random.default_rng(1000+seed)
    lb=-np.abs(r.standard_normal(n)); ub=np.abs(r.standard_normal(n))
    x0=np.where(r.random(n)<0.4, lb, np.where(r.random(n)<0.5, ub, (lb+ub)/2))
    viol=[]
    def f(x):
        v=max((lb-x).max(),(x-ub).max())
        if v>0: viol.append(v/np.spacing(max(abs(lb).max(),abs(ub).max())))
        return 0.5*x@H@x - b@x
    g=lambda x:H@x-b
    res=minimize_lbfgsb(x0=x0,fun=f,jac=g,bounds=np.array([lb,ub]).T,ftol=0,gtol=1e-6,maxiter=200,maxfun=5000,maxcor=1+seed%5)
    if viol: mx.append(max(viol))
print(len(mx), np.percentile(mx,[0,50,90,99,100]))
