import numpy as np, itertools, collections, warnings, copy
warnings.simplefilter('ignore')
import lbfgsb
from lbfgsb import minimize_lbfgsb
from enum1 import problem, BOX, x0_positions, MINLOC
st=collections.Counter(); bad=[]
def run_case(f,g,lb,ub,x0,jac,hostile,maxls,maxfun,scaler=None):
    logf={}; logg={}; nf=[0]; ng=[0]; out=[0]; buf=np.zeros(x0.size)
    def ff(x):
        nf[0]+=1
        xr=np.real(x)
        if (xr<lb).any() or (xr>ub).any(): out[0]+=1
        v=f(x)
        if np.isrealobj(x):
            logf[x.tobytes()]=v
            if hostile=='scribble': x[...]=7.0
        return v
    def gg(x):
        ng[0]+=1
        if (x<lb).any() or (x>ub).any(): out[0]+=1
        v=g(x); logg[x.tobytes()]=v.copy()
        if hostile=='scribble': x[...]=-7.0
        if hostile=='buffer': buf[...]=v; return buf
        return v
    states=[]
    def cb(x,s):
        if (x<lb).any() or (x>ub).any() or (s.x<lb).any() or (s.x>ub).any(): out[0]+=1
        states.append(copy.deepcopy(s))
        if hostile=='scribble': x[...]=55.0
    res=minimize_lbfgsb(x0=x0,fun=ff,jac=gg if jac=='exact' else jac,bounds=np.array([lb,ub]).T,ftol=0,gtol=1e-7,maxiter=40,maxfun=maxfun,maxls=maxls,maxcor=3,callback=cb,gradient_scaler=scaler)
    v=[]
    if out[0] or (res.x<lb).any() or (res.x>ub).any(): v.append('outside')
    if res.nfev!=nf[0]: v.append('nfev')
    if jac=='exact' and res.njev!=ng[0]: v.append('njev')
    s=1.0 if scaler is None else scaler(None,None,None,None)
    for q in states+[res]:
        if q.njev>0 and jac=='exact':
            k=q.x.tobytes()
            if k not in logf or q.fun!=logf[k]*s: v.append('fun'); break
            if k not in logg or not np.array_equal(q.jac,logg[k]*s): v.append('jac'); break
    return v
fams=[]
for boxes in itertools.product(['lo','box','deg','free'],repeat=2):
    for x0pos in itertools.product(*[x0_positions(b) for b in boxes]):
        for minloc in [('below','inside'),('above','above'),('inside','below')]:
            fams.append(('rot2','quart',boxes,x0pos,minloc))
for nm in ['rosenbrock','rastrigin','styblinski_tang','ackley','griewank','beale','quartic','sphere']:
    fams.append(('bench',nm))
for fam in fams:
    if fam[0]=='bench':
        f=getattr(lbfgsb,fam[1]); g=getattr(lbfgsb,fam[1]+'_grad'); lb=np.array([-2.1,-1.7,0.4]); ub=np.array([2.3,1.9,2.8]); starts=[np.array([-2.1,1.9,1.1]),np.array([0.7,-0.3,0.4]),np.array([2.3,1.9,2.8])]
    else:
        f,g,lb,ub,x0,H=problem(2,*fam); starts=[x0]
    for x0 in starts:
      for jac in ['exact',None,'2-point','3-point','cs']:
        for hostile in ['pure','scribble','buffer']:
          for maxls,maxfun in [(1,5),(3,50),(20,3000)]:
            for sc in [None, (lambda *a:0.37)]:
                try: v=run_case(f,g,lb,ub,x0,jac,hostile,maxls,maxfun,sc)
                except Exception as e: v=['exc:'+type(e).__name__+':'+str(e)[:40]]
                st['runs']+=1
                for q in v:
                    st[q]+=1
                    if len(bad)<12 or q.startswith("exc:Lin"): bad.append((q,fam,jac,hostile,maxls,maxfun,sc is not None))
print(dict(st))
for b in bad: print(b)
