import numpy as np, copy
from collections import deque
from scipy.optimize import OptimizeResult, LbfgsInvHessProduct
from lbfgsb import minimize_lbfgsb
# objective f = f1 + w*f2 ; w switches at iteration ksw
def run(n,seed,ksw,wnew,maxcor=4,K=12):
    r=np.random.default_rng(seed)
    A=r.standard_normal((n,n)); H1=A@A.T+np.eye(n)
    b=r.standard_normal(n)
    c=r.standard_normal(n)
    w=[1.0]
    f1=lambda x:0.5*x@H1@x-b@x
    g1=lambda x:H1@x-b
    f2=lambda x:np.sum(np.cos(x-c))   # nonconvex regulariser
    g2=lambda x:-np.sin(x-c)
    fun=lambda x:f1(x)+w[0]*f2(x)
    jac=lambda x:g1(x)+w[0]*g2(x)
    it=[0]
    states=[]
    def upd(x,f0,f0_old,grad,X,G):
        it[0]+=1
        if it[0]-1==ksw:   # called once before loop (it=1 -> k=0), then once per iteration
            w[0]=wnew
            G2=deque([jac(xx) for xx in X])
            # f0_old should be the objective at previous x under new def ; approximate with X[-1]
            return fun(x), fun(X[-1]) if len(X) else fun(x), jac(x), G2
        return f0,f0_old,grad,G
    def cb(x,st): states.append(copy.deepcopy(st))
    x0=r.uniform(-1,1,n)
    lb=-2*np.ones(n); ub=2*np.ones(n)
    res=minimize_lbfgsb(x0=x0,fun=fun,jac=jac,bounds=np.array([lb,ub]).T,update_fun_def=upd,callback=cb,maxcor=maxcor,maxiter=K,ftol=0,gtol=1e-10)
    return states,res,fun,jac,(lb,ub),w
tot=0;bad=0
for n in [2,3,5]:
  for seed in range(10):
    for ksw in [2,3,5]:
      for wnew in [0.2,5.0,-3.0]:
        states,res,fun,jac,(lb,ub),w=run(n,seed,ksw,wnew)
        if len(states)<=ksw: continue
        st=states[ksw-1]  # state after iteration ksw (callback k-th call has nit=k-1 in pinned; index)
        # state at callback number ksw is after the update (update is called at it index ksw+1 -> after iteration ksw)
        sk,yk=st.hess_inv.sk,st.hess_inv.yk
        # restart from st on new objective
        ck=copy.deepcopy(st)
        ck.nit=ksw
        try:
            r1=minimize_lbfgsb(x0=ck.x,fun=fun,jac=jac,bounds=np.array([lb,ub]).T,checkpoint=ck,maxcor=4,maxiter=ksw+1,ftol=0,gtol=1e-10)
        except Exception as e:
            print('EXC',n,seed,ksw,wnew,repr(e)[:80]); continue
        tot+=1
        nxt=states[ksw].x
        err=np.abs(r1.x-nxt).max()
        curv=[float(s@y) for s,y in zip(sk,yk)]
        if err>1e-8:
            bad+=1
            if bad<10: print(n,seed,ksw,wnew,'err',err,'npairs',len(sk),'min sy',min(curv) if curv else None)
print(bad,tot)
