import numpy as np, itertools, collections, warnings, copy
from collections import deque
from lbfgsb.bfgsmats import LBFGSB_MATRICES, update_lbfgs_matrices, bmv
def dense_B(pairs,n):
    s,y=pairs[-1]; theta=(y@y)/(s@y)
    B=theta*np.eye(n)
    for s,y in pairs:
        Bs=B@s
        B=B-np.outer(Bs,Bs)/(s@Bs)+np.outer(y,y)/(y@s)
    return B,theta
def compact_B(mats,n):
    m2=mats.W.shape[1]
    M=np.column_stack([bmv(mats.invMfactors,e) for e in np.eye(m2)])
    return mats.theta*np.eye(n)-mats.W@M@mats.W.T
n=3
e=np.eye(n)
# alphabet of candidate (s,y): accepted (pos curvature) and rejected (zero/neg curvature)
A={'a':(e[0]*0.5,e[0]*1.0),'b':((e[0]+e[1])*0.3,np.array([0.45,0.12,0.0])),'c':(np.array([0.1,-0.7,0.2]),np.array([0.7,-3.5,1.1])),
   'd':(np.array([0.2,-0.3,0.6]),np.array([0.5,-0.1,3.0])),'z':(e[2]*0.4,np.zeros(n)),'n':(e[1]*0.4,-e[1]*0.8),'o':(e[0]*0.3,e[1]*0.5)}
st=collections.Counter()
for maxcor in [1,2,3]:
  for L in range(1,6):
    for seq in itertools.product(A,repeat=L):
        x=np.array([0.3,-0.2,0.1]); g=np.array([1.0,2.0,-0.5])
        X=deque([x.copy()]);G=deque([g.copy()]); mats=LBFGSB_MATRICES(n)
        ref=[]  # list of accepted pairs
        for a in seq:
            s,y=A[a]
            # candidate relative to last *retained* point
            xk=X[-1]+s; gk=G[-1]+y
            before=(copy.deepcopy(mats.__getstate__() if hasattr(mats,'__getstate__') else None))
            W0=mats.W.copy(); th0=mats.theta; lenX=len(X)
            mats=update_lbfgs_matrices(xk.copy(),gk.copy(),X,G,maxcor,mats,False)
            sy=s@y; acc=sy>2.2e-16*(y@y)
            if acc:
                ref.append((xk-X[-2] if len(X)>1 else s, gk-G[-2] if len(G)>1 else y)); ref=ref[-maxcor:]
            else:
                if len(X)!=lenX or not np.array_equal(W0,mats.W) or th0!=mats.theta: st['rejected_changed']+=1
            st['steps']+=1
            if len(X)-1!=len(ref): st['len_bad']+=1; continue
            if len(X)-1>maxcor: st['over']+=1
            if ref:
                pairs=[(X[i+1]-X[i],G[i+1]-G[i]) for i in range(len(X)-1)]
                B,theta=dense_B(pairs,n); Bc=compact_B(mats,n)
                if not np.allclose(B,Bc,rtol=1e-8,atol=1e-10): st['B_bad']+=1
                if np.linalg.eigvalsh((Bc+Bc.T)/2).min()<=0: st['not_spd']+=1
                if not np.allclose(Bc@pairs[-1][0],pairs[-1][1],rtol=1e-8,atol=1e-10): st['secant_bad']+=1
print(dict(st))
