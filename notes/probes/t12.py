import numpy as np, itertools, copy, collections, warnings
warnings.simplefilter('ignore')
from lbfgsb import minimize_lbfgsb, rosenbrock, rosenbrock_grad
from lbfgsb.base import projgr
DOC={"CONVERGENCE: NORM_OF_PROJECTED_GRADIENT_<=_PGTOL","CONVERGENCE: REL_REDUCTION_OF_F_<=_FTOL","CONVERGENCE: F_<=_TARGET","STOP: TOTAL NO. of ITERATIONS REACHED LIMIT","STOP: TOTAL NO. of f AND g EVALUATIONS EXCEEDS LIMIT","STOP: USER CALLBACK","ABNORMAL_TERMINATION_IN_LNSRCH"}
x0=np.array([-1.2,1.0]); bn=np.array([[-2,2.],[-2,2.]]); lb,ub=bn[:,0],bn[:,1]
viol=collections.Counter(); tot=0; msgs=collections.Counter()
for k0 in [0,1,3]:
  ck=minimize_lbfgsb(x0=x0,fun=rosenbrock,jac=rosenbrock_grad,bounds=bn,maxiter=k0,ftol=0,gtol=1e-12,maxcor=3)
  for maxiter,maxfun,maxls,ftol,gtol,ftarget in itertools.product([0,1,2,3,4,8],[1,2,4,6,9,100],[1,2,20],[0,1e-3],[1e-8,1e3],[None,-1e9,50.0]):
    nf=[0];ng=[0]
    def ff(x): nf[0]+=1; return rosenbrock(x)
    def gg(x): ng[0]+=1; return rosenbrock_grad(x)
    c=copy.deepcopy(ck)
    res=minimize_lbfgsb(x0=c.x,fun=ff,jac=gg,bounds=bn,maxiter=maxiter,maxfun=maxfun,maxls=maxls,ftol=ftol,gtol=gtol,ftarget=ftarget,checkpoint=c,maxcor=3)
    tot+=1; m=res.message; msgs[m]+=1
    if m not in DOC: viol['undoc:'+m]+=1
    if 'PROJECTED' in m and not projgr(res.x,res.jac,lb,ub)<=gtol: viol['pg']+=1
    if 'TARGET' in m and not res.fun<=ftarget: viol['target']+=1
    if 'ITERATIONS' in m and not res.nit>=maxiter: viol['iters']+=1
    if 'EVALUATIONS' in m and not res.nfev>=maxfun: viol['evals']+=1
    if res.success != (m!="ABNORMAL_TERMINATION_IN_LNSRCH"): viol['success:'+m]+=1
    if res.nit>max(maxiter,ck.nit): viol['nit']+=1
    if res.nfev>max(maxfun,ck.nfev)+1: viol['nfev_budget']+=1
    if res.nfev!=ck.nfev+nf[0] or res.njev!=ck.njev+ng[0]: viol['counters']+=1
print(tot,dict(viol)); print(dict(msgs))
