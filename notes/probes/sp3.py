import numpy as np, itertools, collections, warnings
warnings.simplefilter('ignore')
from scipy.optimize import minimize
from lbfgsb import minimize_lbfgsb
from enum1 import *
worst=0; cnt=0; bad=[]
n=2
for hname in hessians(n):
  for kind in ['qp','quart','soft']:
    for boxes in itertools.product(list(BOX),repeat=n):
      for x0pos in itertools.product(*[x0_positions(b) for b in boxes]):
        for minloc in itertools.product(MINLOC,repeat=n):
            f,g,lb,ub,x0,H=problem(n,hname,kind,boxes,x0pos,minloc)
            bn=[(None if np.isinf(a) else a, None if np.isinf(b) else b) for a,b in zip(lb,ub)]
            a=minimize_lbfgsb(x0=x0,fun=f,jac=g,bounds=np.array([lb,ub]).T,ftol=0,gtol=1e-8,maxiter=500,maxfun=5000,maxcor=5)
            b=minimize(f,x0,jac=g,bounds=bn,method='L-BFGS-B',options=dict(ftol=0,gtol=1e-8,maxiter=500,maxfun=5000,maxcor=5))
            d=abs(a.fun-b.fun)/(1+abs(b.fun)); cnt+=1
            if d>worst: worst=d
            if d>1e-9: bad.append((d,a.fun,b.fun,a.message,b.message,hname,kind,boxes,x0pos,minloc))
print(cnt,worst,len(bad))
for x in sorted(bad,key=lambda r:-r[0])[:8]: print(x)
