import numpy as np, itertools, collections, warnings
warnings.simplefilter('ignore')
from lbfgsb.linesearch import line_search
from lbfgsb.scalar_function import ScalarFunction
INF=np.inf
OBJ={
 'quad':(lambda x:float(x@x),lambda x:2*x),
 'rosen':(lambda x:float(100*(x[1]-x[0]**2)**2+(1-x[0])**2),lambda x:np.array([-400*x[0]*(x[1]-x[0]**2)-2*(1-x[0]),200*(x[1]-x[0]**2)])),
 'osc':(lambda x:float(x@x+3*np.sum(np.sin(7*x))),lambda x:2*x+21*np.cos(7*x)),
 'exp':(lambda x:float(np.sum(x+np.exp(-10*x))),lambda x:1-10*np.exp(-10*x)),
 'lin':(lambda x:float(np.sum(x*np.array([1.0,-0.3]))),lambda x:np.array([1.0,-0.3])),
 'scaled':(lambda x:float(1e6*x[0]**2+1e-3*x[1]**2),lambda x:np.array([2e6*x[0],2e-3*x[1]])),
}
BOXES={'free':(np.array([-INF,-INF]),np.array([INF,INF])),'box':(np.array([-1.3,-0.7]),np.array([1.9,2.1])),'half':(np.array([-1.3,-INF]),np.array([INF,2.1]))}
STARTS=[np.array([0.7,1.1]),np.array([-1.3,0.4]),np.array([1.9,2.1]),np.array([0.1,-0.7]),np.array([-0.45,0.3])]
st=collections.Counter()
for on,(f,g) in OBJ.items():
  for bn,(lb,ub) in BOXES.items():
    for x0 in STARTS:
      x0=np.clip(x0,lb,ub)
      for tstep in [0.01,0.3,1.0,10.0]:
        g0=g(x0); d=np.clip(x0-tstep*g0,lb,ub)-x0
        if not g0@d<0: continue
        for it in [0,3]:
          for cap in range(1,21):
            for tol in [(1e-3,0.9,0.1),(1e-4,0.1,1e-5)]:
                pts=[]
                def ff(x): pts.append(x.copy()); return f(x)
                sf=ScalarFunction(ff,x0,(),g,None,(lb,ub))
                f0=sf.fun(x0); gg=sf.grad(x0); n0=sf.nfev; pts.clear()
                a=line_search(x0,f0,gg,d,lb,ub,it,1e8,not np.isinf(lb).any() and not np.isinf(ub).any(),sf,tol[0],tol[1],tol[2],cap,-1,None)
                st['calls']+=1
                if any((p<lb).any() or (p>ub).any() for p in pts): st['outside']+=1
                if sf.nfev-n0>cap: st['over_budget']+=1
                if a is None: st['none']+=1; continue
                with np.errstate(all='ignore'):
                    amax=min([ (ub[i]-x0[i])/d[i] if d[i]>0 else (lb[i]-x0[i])/d[i] for i in range(2) if d[i]!=0]+[1e8]) if it>0 else 1.0
                if not (0<a<=amax*(1+1e-12)): st['step_range']+=1
                fa=f(np.clip(x0+a*d,lb,ub))
                if not fa<f0: st['not_lower']+=1
print(dict(st))
