import numpy as np, copy, itertools, collections, warnings
warnings.simplefilter('ignore')
from lbfgsb import minimize_lbfgsb, rosenbrock, rosenbrock_grad, styblinski_tang, styblinski_tang_grad, rastrigin, rastrigin_grad
from ck1 import cases
st=collections.Counter(); worst=0
K=8
def trunc(ck,m):
    c=copy.deepcopy(ck)
    from scipy.optimize import LbfgsInvHessProduct
    c.hess_inv=LbfgsInvHessProduct(ck.hess_inv.sk[-m:].copy(),ck.hess_inv.yk[-m:].copy())
    return c
allcases=list(cases())
for n in [2,3]:
    for sv in range(3):
        x0=np.random.default_rng(sv).uniform(-2,2,n)
        allcases.append(((n,'rastr',sv),rastrigin,rastrigin_grad,np.full(n,-3.0),np.full(n,3.0),x0))
for name,f,g,lb,ub,x0 in allcases:
    for m in [1,3]:
        kw=dict(fun=f,jac=g,bounds=np.array([lb,ub]).T,ftol=0,gtol=1e-9,maxcor=m,maxfun=10**5)
        for splits in itertools.chain.from_iterable(itertools.combinations(range(1,K),r) for r in (1,2,3)):
            # chain: run to splits[0], restart to splits[1], ... ; compare each link's next iterate with parent's continuation
            parent=lambda k: minimize_lbfgsb(x0=x0,maxiter=k,**kw)
            cur=parent(splits[0])
            if cur.nit<splits[0]: continue
            ok=True
            mk=lambda ck: (lambda k: minimize_lbfgsb(x0=ck.x,maxiter=k,checkpoint=copy.deepcopy(ck),**kw))
            par=parent
            for i,k in enumerate(splits):
                ck=par(k)
                if ck.nit<k or 'ITERATIONS' not in ck.message: ok=False;break
                nxt_parent=par(k+1)
                child=mk(ck)
                nxt_child=child(k+1)
                if nxt_parent.nit<k+1: break
                err=np.abs(nxt_child.x-nxt_parent.x).max()/(1+np.abs(nxt_parent.x).max())
                worst=max(worst,err); st['links']+=1
                if err>1e-8: st['bad']+=1; print('bad',name,m,splits,i,err) if st['bad']<6 else None
                if nxt_child.nfev!=nxt_parent.nfev or nxt_child.nit!=nxt_parent.nit: st['count_mismatch']+=1
                par=child
            st['chains']+=1
        # maxcor reduce
        for k in [3,6]:
            ck=minimize_lbfgsb(x0=x0,maxiter=k,**kw)
            if ck.nit<k: continue
            for m2 in range(1,m+1):
                kw2={**kw,'maxcor':m2}
                r0=minimize_lbfgsb(x0=ck.x,maxiter=k,checkpoint=copy.deepcopy(ck),**kw2)
                exp=ck.hess_inv.sk[-m2:]
                st['reduce']+=1
                if exp.size==0: continue
                if r0.hess_inv.sk.shape!=exp.shape or np.abs(r0.hess_inv.sk-exp).max()>1e-8*(1+np.abs(ck.x).max()): st['reduce_bad']+=1
                a=minimize_lbfgsb(x0=ck.x,maxiter=k+1,checkpoint=copy.deepcopy(ck),**kw2)
                b=minimize_lbfgsb(x0=ck.x,maxiter=k+1,checkpoint=trunc(ck,m2),**kw2)
                if np.abs(a.x-b.x).max()>1e-8*(1+np.abs(a.x).max()): st['reduce_diff']+=1
print(dict(st),worst)
