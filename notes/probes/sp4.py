import numpy as np, warnings
warnings.simplefilter('ignore')
from scipy.optimize import minimize
from lbfgsb import minimize_lbfgsb
from enum1 import *
f,g,lb,ub,x0,H=problem(2,'rot4','qp',('lo','box'),('lb','ub'),('below','below'))
bn=[(None if np.isinf(a) else a, None if np.isinf(b) else b) for a,b in zip(lb,ub)]
pts=[]
def ff(x): pts.append(x.copy()); return f(x)
for ftol in [0,1e-15,2.2e-9]:
    pts.clear()
    b=minimize(ff,x0,jac=g,bounds=bn,method='L-BFGS-B',options=dict(ftol=ftol,gtol=1e-8,maxiter=500,maxfun=5000,maxcor=5))
    print(ftol,b.message,b.nit,b.nfev,b.fun,b.x,pg(b.x,g(b.x),lb,ub)); 
    for p in pts[:6]: print('   ',p,f(p))
a=minimize_lbfgsb(x0=x0,fun=f,jac=g,bounds=np.array([lb,ub]).T,ftol=0,gtol=1e-8,maxiter=500,maxfun=5000,maxcor=5)
print(a.message,a.nit,a.fun,a.x,lb,ub,x0,f(x0),g(x0))
