import numpy as np, warnings
from cp1 import *
import lbfgsb.cauchy as C
n=3
pairs=pair_sets(n)[-1]
B,theta=dense_B(pairs,n); mats=build_mats(pairs,n)
lb=np.array([-1.,-1.,-INF]); ub=np.full(3,INF)
x=np.full(3,0.25); g=np.array([2.5,0.8,0.0])
import logging,sys
lg=logging.getLogger('x'); lg.addHandler(logging.StreamHandler(sys.stdout)); lg.setLevel(logging.INFO)
xc,c=get_cauchy_point(x,g,lb,ub,mats,1,101,lg)
print(xc,c,mats.W.T@(xc-x))
