import numpy as np, copy, itertools, collections, warnings
from collections import deque
warnings.simplefilter('ignore')
from lbfgsb import minimize_lbfgsb
from ck1 import cases
st=collections.Counter()
def chain_ok(points,gr,sk,yk):
    # points: list of arrays (chronological), gr: list of gradient arrays aligned. find increasing subsequence matching diffs bitwise
    m=len(sk); K=len(points)
    if m==0: return []
    for a0 in range(K):
        idx=[a0]
        for i in range(m):
            nx=None
            for j in range(idx[-1]+1,K):
                if np.array_equal(points[j]-points[idx[-1]],sk[i]) and np.array_equal(gr[j]-gr[idx[-1]],yk[i]): nx=j;break
            if nx is None: break
            idx.append(nx)
        if len(idx)==m+1: return idx
    return None
K=7
for name,f,g,lb,ub,x0 in list(cases())[::3]:
    n=x0.size
    for m in [2,3]:
        for ksw in range(1,K-1):
            npairs=min(m,ksw)  # pairs stored before iteration ksw's update? X has min(m+1, ksw) points when update called in iteration ksw (before appending)
            for mask in itertools.product([0,1],repeat=m+1):
                if not any(mask): continue
                calls=[0]; rec={}
                def upd(x,f0,f0_old,grad,X,G):
                    calls[0]+=1
                    if calls[0]-1!=ksw: return f0,f0_old,grad,G
                    # rewrite: flip gradient of stored point i if mask[i] (aligned from newest)
                    Xl=list(X); Gl=[gg.copy() for gg in G]
                    for i in range(len(Gl)):
                        if mask[i% len(mask)] : Gl[len(Gl)-1-i]= -Gl[len(Gl)-1-i]*0.5+0.1
                    rec['X']=[xx.copy() for xx in Xl]; rec['G']=[gg.copy() for gg in Gl]; rec['x']=x.copy(); rec['grad']=grad.copy()
                    return f0,f0_old,grad,deque(Gl)
                states=[]
                def cb(x,s): states.append(copy.deepcopy(s))
                logs={}
                def gg_(x):
                    v=g(x); logs[x.tobytes()]=v.copy(); return v
                res=minimize_lbfgsb(x0=x0,fun=f,jac=gg_,bounds=np.array([lb,ub]).T,ftol=0,gtol=1e-10,maxcor=m,maxiter=K,update_fun_def=upd,callback=cb)
                if 'X' not in rec or len(states)<ksw: continue
                st['runs']+=1
                # state right after rewrite = states[ksw-1]
                s=states[ksw-1]
                pts=rec['X']+[rec['x']]; grs=rec['G']+[rec['grad']]
                sk,yk=s.hess_inv.sk,s.hess_inv.yk
                if sk.shape[0]>m: st['too_many']+=1
                r=chain_ok(pts,grs,sk,yk)
                if r is None: st['prov_bad']+=1; 
                else:
                    st['prov_ok']+=1
                    if len(r) and r[-1] not in (len(pts)-1,len(pts)-2): st['newest_dropped']+=1
                if sk.size and not all(a@b>2.2e-16*(b@b) for a,b in zip(sk,yk)): st['curv_bad']+=1
                st[('npairs',sk.shape[0])]+=1
print({k:v for k,v in st.items() if not isinstance(k,tuple)}); print({k:v for k,v in st.items() if isinstance(k,tuple)})
