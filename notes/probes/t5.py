import numpy as np, copy
from lbfgsb import minimize_lbfgsb, rosenbrock, rosenbrock_grad
n=4
x0=np.array([-1.2,1.0,-0.5,0.8])
bounds=np.array([[-2,2]]*n)
kw=dict(fun=rosenbrock,jac=rosenbrock_grad,bounds=bounds,ftol=0,gtol=1e-9,maxcor=3,maxfun=10000)
full={k:minimize_lbfgsb(x0=x0,maxiter=k,**kw) for k in range(0,15)}
for k in range(1,12):
    ck=full[k]
    r0=minimize_lbfgsb(x0=ck.x,maxiter=k,checkpoint=copy.deepcopy(ck),**kw)
    r1=minimize_lbfgsb(x0=ck.x,maxiter=k+1,checkpoint=copy.deepcopy(ck),**kw)
    d_sk=np.abs(r0.hess_inv.sk-ck.hess_inv.sk).max() if r0.hess_inv.sk.shape==ck.hess_inv.sk.shape else 'shape'
    print(k, ck.nit, r0.message, d_sk, np.abs(r1.x-full[k+1].x).max(), r1.nit, r1.nfev, full[k+1].nfev)
