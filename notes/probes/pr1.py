import numpy as np, itertools, collections, warnings, copy
warnings.simplefilter('ignore')
from lbfgsb import minimize_lbfgsb, rosenbrock, rosenbrock_grad, styblinski_tang, styblinski_tang_grad, extract_hess_inv_diag
def provenance(points, grads, sk, yk):
    # points: list of iterates (x0 + callback xs) ; grads: dict bytes->gradient returned by user (latest)
    m=len(sk)
    if m==0: return True
    K=len(points)
    for a0 in range(K):
        idx=[a0]; ok=True
        for i in range(m):
            found=None
            for j in range(idx[-1]+1,K):
                if np.array_equal(points[j]-points[idx[-1]],sk[i]) and np.array_equal(grads[points[j].tobytes()]-grads[points[idx[-1]].tobytes()],yk[i]):
                    found=j;break
            if found is None: ok=False;break
            idx.append(found)
        if ok: return idx
    return None
st=collections.Counter()
for fn,(f,g) in {'rosen':(rosenbrock,rosenbrock_grad),'stang':(styblinski_tang,styblinski_tang_grad)}.items():
  for n in [2,3,5]:
    for sv in range(5):
      for m in [1,2,4]:
        for hostile in [False,True]:
            x0=np.random.default_rng(sv).uniform(-2.5,2.5,n)
            grads={}; buf=np.zeros(n)
            def gg(x):
                gv=g(x); grads[x.tobytes()]=gv.copy()
                if hostile:
                    buf[...]=gv; return buf
                return gv
            pts=[x0.copy()]; states=[]
            def cb(x,s): pts.append(x.copy()); states.append(copy.deepcopy(s))
            res=minimize_lbfgsb(x0=x0,fun=f,jac=gg,bounds=np.array([[-3,3.]]*n),maxcor=m,maxiter=15,ftol=0,gtol=1e-10,callback=cb)
            for s in states+[res]:
                st['states']+=1
                sk,yk=s.hess_inv.sk,s.hess_inv.yk
                if sk.shape[0]>m: st['too_many']+=1
                r=provenance(pts,grads,sk,yk)
                if r is None: st['prov_bad']+=1
                if sk.size and not all(a@b>0 for a,b in zip(sk,yk)): st['curv_bad']+=1
                if sk.size:
                    d=extract_hess_inv_diag(s.hess_inv); D=np.diag(s.hess_inv.todense())
                    if not np.allclose(d,D,rtol=1e-9,atol=1e-12*np.abs(D).max()): st['diag_bad']+=1
print(dict(st))
