import numpy as np, warnings, collections
warnings.simplefilter('ignore')
from sp1 import trace_ours, trace_sp
st=collections.Counter()
# threshold-sweeping family: f = a/2 x^2 + quartic bump, 1-D and 2-D
for a in [4.0, 50.0]:
  for rho in [3e-5,3e-4,5e-4,2e-3,1e-2,0.1,0.3]:
    for n in [1,2]:
        # first trial: x0 - g/|g| ; for 1-D quadratic decrease ratio rho=(x0-1/2)/x0 -> x0 = 0.5/(1-rho)
        x0=np.full(n,0.5/(1-rho)/np.sqrt(n)) if n==1 else np.array([0.5/(1-rho),0.0])
        H=np.diag([a]+[a*3]*(n-1))
        f=lambda x:0.5*x@H@x; g=lambda x:H@x
        po,io,ro=trace_ours(f,g,x0,3,6); ps,is_,rs=trace_sp(f,g,x0,3,6)
        L=min(len(po),len(ps)); k=0
        while k<L and np.abs(po[k]-ps[k]).max()<=1e-6*(1+np.abs(ps[k]).max()): k+=1
        st['runs']+=1
        if k<L: st['mismatch']+=1; print('mismatch',a,rho,n,k,L,po[k],ps[k])
print(dict(st))
