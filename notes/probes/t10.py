import numpy as np
from scipy.optimize import minimize
from lbfgsb import minimize_lbfgsb, rosenbrock, rosenbrock_grad
def trace_ours(f,g,x0,m,maxiter=12):
    pts=[]
    def ff(x): pts.append(x.copy()); return f(x)
    its=[]
    res=minimize_lbfgsb(x0=x0,fun=ff,jac=g,maxcor=m,maxiter=maxiter,ftol=0,gtol=0,maxfun=10**6,callback=lambda x,s:its.append(x.copy()))
    return pts,its,res
def trace_sp(f,g,x0,m,maxiter=12):
    pts=[]
    def ff(x): pts.append(x.copy()); return f(x)
    its=[]
    res=minimize(ff,x0,jac=g,method='L-BFGS-B',callback=lambda x:its.append(x.copy()),options=dict(maxcor=m,maxiter=maxiter,ftol=0,gtol=0,maxfun=10**6))
    return pts,its,res
def mkq(n,seed,quart):
    r=np.random.default_rng(seed)
    A=r.standard_normal((n,n)); H=A@A.T+np.eye(n); b=r.standard_normal(n)*2
    f=lambda x:0.5*x@H@x-b@x+quart*np.sum(x**4)
    g=lambda x:H@x-b+4*quart*x**3
    return f,g
for n in [2,4,8]:
  for seed in range(4):
    for m in [1,3,8]:
      for name,(f,g) in {'rosen':(rosenbrock,rosenbrock_grad),'qq':mkq(n,seed,0.3)}.items():
        r=np.random.default_rng(seed+7); x0=r.uniform(-2,2,n)
        po,io,ro=trace_ours(f,g,x0,m); ps,is_,rs=trace_sp(f,g,x0,m)
        k=0
        while k<min(len(po),len(ps)) and np.allclose(po[k],ps[k],rtol=1e-7,atol=1e-9): k+=1
        print(name,n,seed,m,'evals ours',len(po),'sp',len(ps),'agree_prefix',k,'g0norm',np.linalg.norm(g(x0))>1)
