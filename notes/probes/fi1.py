import numpy as np, collections, warnings
warnings.simplefilter('ignore')
from lbfgsb import minimize_lbfgsb, rosenbrock, rosenbrock_grad
class Boom(Exception): pass
EXC=[RuntimeError,TypeError,IndexError,ValueError,AssertionError,ZeroDivisionError,FloatingPointError,Boom,KeyboardInterrupt,StopIteration,AttributeError,KeyError,OverflowError,np.linalg.LinAlgError]
x0=np.array([-1.2,1.0,0.3]); bnds=np.array([[-2,2.]]*3)
ident=lambda x,f0,f0_old,grad,X,G:(f0,f0_old,grad,G)
def run(inject=None, jac='exact'):
    # inject=(kind, idx, exc)
    cnt=collections.Counter()
    def hit(kind):
        cnt[kind]+=1
        if inject and inject[0]==kind and inject[1]==cnt[kind]: raise inject[2]
    def f(x): hit('fun'); return rosenbrock(x)
    def g(x): hit('jac'); return rosenbrock_grad(x)
    def cb(x,s): hit('cb'); return False
    def upd(*a): hit('upd'); return ident(*a)
    def sc(x,g_,lb,ub): hit('scaler'); return 0.5
    def ft(): hit('ftarget'); return -1.0
    def gt(): hit('gtol'); return 1e-8
    res=minimize_lbfgsb(x0=x0,fun=f,jac=g if jac=='exact' else jac,bounds=bnds,callback=cb,update_fun_def=upd,gradient_scaler=sc,ftarget=ft,gtol=gt,maxiter=4,maxcor=2)
    return res,cnt
base,cnt=run()
print(dict(cnt))
bad=collections.Counter(); tot=0
for kind,N in cnt.items():
    for i in range(1,N+1):
        for E in EXC:
            e=E('injected-%s-%d'%(kind,i))
            tot+=1
            try:
                r,_=run((kind,i,e))
                bad[(kind,E.__name__,'swallowed')]+=1
            except BaseException as got:
                if got is not e: bad[(kind,E.__name__,'converted:'+type(got).__name__)]+=1
            r2,_=run()
            if not (np.array_equal(r2.x,base.x) and r2.fun==base.fun and r2.nfev==base.nfev): bad[(kind,'followup')]+=1
print(tot,dict(bad))
