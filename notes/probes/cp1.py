import numpy as np, itertools, collections, sys, warnings
warnings.simplefilter('ignore')
from collections import deque
from lbfgsb.cauchy import get_cauchy_point
from lbfgsb.subspacemin import get_freev, subspace_minimization
from lbfgsb.bfgsmats import LBFGSB_MATRICES, update_lbfgs_matrices, bmv
INF=np.inf
def dense_B(pairs,n):
    if not pairs: return np.eye(n),1.0
    s,y=pairs[-1]; theta=(y@y)/(s@y)
    B=theta*np.eye(n)
    for s,y in pairs:
        Bs=B@s
        B=B-np.outer(Bs,Bs)/(s@Bs)+np.outer(y,y)/(y@s)
    return B,theta
def ref_gcp(x,g,lb,ub,B):
    n=x.size
    t=np.full(n,INF)
    for i in range(n):
        if g[i]<0: t[i]=(x[i]-ub[i])/g[i]
        elif g[i]>0: t[i]=(x[i]-lb[i])/g[i]
    d=np.where(t==0,0.0,-g)
    xc=x.copy(); told=0.0
    bps=sorted(set(t[t>0]))
    for tb in bps+[INF]:
        if not np.any(d!=0): break
        z=xc-x
        fp=g@d+d@B@z; fpp=d@B@d
        if fp>=0: break
        dtmin=-fp/fpp
        if dtmin<tb-told:
            xc=xc+dtmin*d; break
        # move to breakpoint
        xc=xc+(tb-told)*d
        for i in range(n):
            if t[i]==tb:
                xc[i]=ub[i] if d[i]>0 else lb[i]
                d[i]=0.0
        told=tb
    return xc
def ref_sub(x,xc,g,lb,ub,B):
    free=[i for i in range(x.size) if xc[i]!=lb[i] and xc[i]!=ub[i]]
    if not free: return xc.copy()
    r=(g+B@(xc-x))[free]
    dF=-np.linalg.solve(B[np.ix_(free,free)],r)
    a=1.0
    for k,i in enumerate(free):
        if dF[k]>0 and np.isfinite(ub[i]): a=min(a,(ub[i]-xc[i])/dF[k])
        if dF[k]<0 and np.isfinite(lb[i]): a=min(a,(lb[i]-xc[i])/dF[k])
    xb=xc.copy(); xb[free]+=a*dF
    return xb
def model(xx,x,g,B): z=xx-x; return g@z+0.5*z@B@z
POS={'L':('lb',), 'I':('in',), 'U':('ub',)}
BT={'free':(-INF,INF),'lo':(-1.0,INF),'up':(-INF,2.0),'box':(-1.0,2.0)}
def positions(bt):
    l,u=BT[bt]
    r={'I':0.25}
    if np.isfinite(l): r['L']=l
    if np.isfinite(u): r['U']=u
    return r
GV=[-3.0,-0.5,0.0,0.8,2.5]
def pair_sets(n):
    e=np.eye(n)
    out=[[]]
    s1=e[0]*0.5; y1=s1*2.0
    out.append([(s1,y1)])
    if n>=2:
        s2=(e[0]+e[1])*0.3; y2=np.array([1.5,0.4]+[0]*(n-2))*0.3
        out.append([(s1,y1),(s2,y2)])
        s3=e[1]*-0.7+e[0]*0.1; y3=s3*5+e[0]*0.2
        out.append([(s2,y2),(s3,y3)])
    if n>=3:
        s4=np.array([0.2,-0.3,0.6]+[0]*(n-3)); y4=np.array([0.5,-0.1,3.0]+[0]*(n-3))
        out.append([(s1,y1),(s2,y2),(s4,y4)])
    return out
def build_mats(pairs,n):
    mats=LBFGSB_MATRICES(n)
    if not pairs: return mats
    x=np.zeros(n); g=np.zeros(n)
    X=deque([x.copy()]);G=deque([g.copy()])
    for s,y in pairs:
        x=x+s; g=g+y
        mats=update_lbfgs_matrices(x.copy(),g.copy(),X,G,10,mats,False)
    assert len(X)==len(pairs)+1
    return mats
def main(n):
    st=collections.Counter(); bad=[]
    for pairs in pair_sets(n):
        assert all(s@y>0 for s,y in pairs)
        B,theta=dense_B(pairs,n)
        mats=build_mats(pairs,n)
        for bts in itertools.product(BT,repeat=n):
            lb=np.array([BT[b][0] for b in bts]);ub=np.array([BT[b][1] for b in bts])
            for pos in itertools.product(*[positions(b).items() for b in bts]):
                x=np.array([p[1] for p in pos])
                for gv in itertools.product(GV,repeat=n):
                    g=np.array(gv)
                    pgn=np.max(np.abs(np.clip(x-g,lb,ub)-x))
                    if pgn==0: continue
                    st['cases']+=1
                    xc,c=get_cauchy_point(x,g,lb,ub,mats,1,-1,None)
                    xr=ref_gcp(x,g,lb,ub,B)
                    if not np.allclose(xc,xr,rtol=1e-9,atol=1e-9):
                        st['gcp_bad']+=1
                        if len(bad)<8: bad.append(('gcp',len(pairs),bts,[p[0] for p in pos],gv,xc,xr))
                        continue
                    if model(xc,x,g,B)>1e-12: st['gcp_model_up']+=1
                    # c check
                    if pairs and np.any((xc!=lb)&(xc!=ub)):
                        if not np.allclose(c,mats.W.T@(xc-x),rtol=1e-8,atol=1e-9): st['c_bad']+=1
                    free,Z,A=get_freev(xc,lb,ub,1)
                    xb=subspace_minimization(x,xc,free,Z,A,c,g,lb,ub,mats)
                    xbr=ref_sub(x,xc,g,lb,ub,B)
                    if not np.allclose(xb,xbr,rtol=1e-8,atol=1e-9):
                        st['sub_bad']+=1
                        if len(bad)<8: bad.append(('sub',len(pairs),bts,[p[0] for p in pos],gv,xb,xbr))
                    if model(xb,x,g,B)>model(xc,x,g,B)+1e-12: st['sub_model_up']+=1
                    if not g@(xb-x)<0: st['not_descent']+=1
    print(n,dict(st))
    for b in bad: print('  ',b)
if __name__=="__main__": main(int(sys.argv[1]))
