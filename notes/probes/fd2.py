import numpy as np, itertools, collections, warnings
warnings.simplefilter('ignore')
from lbfgsb import minimize_lbfgsb
from enum1 import problem, BOX, x0_positions, MINLOC
st=collections.defaultdict(float); cnt=collections.Counter()
n=2
for hname in ['diag','rot2']:
  for kind in ['qp','quart','soft']:
    for boxes in itertools.product(list(BOX),repeat=n):
      for x0pos in itertools.product(*[x0_positions(b) for b in boxes]):
        for minloc in [('below','inside'),('above','above'),('inside','inside'),('inside','below')]:
            f,g,lb,ub,x0,H=problem(n,hname,kind,boxes,x0pos,minloc)
            kw=dict(x0=x0,bounds=np.array([lb,ub]).T,ftol=1e-13,gtol=1e-8,maxiter=300,maxfun=5000,maxcor=5)
            ref=minimize_lbfgsb(fun=f,jac=g,**kw)
            for jac,step in [(None,1e-8),(None,1e-4),(None,0.3),('2-point',None),('2-point',1e-4),('2-point',0.2),('3-point',None),('3-point',1e-4),('3-point',0.2),('cs',None),('cs',1e-4)]:
                out=[0]
                def ff(x):
                    xr=np.real(x)
                    if (xr<lb).any() or (xr>ub).any(): out[0]+=1
                    return f(x)
                try:
                    if jac is None: r=minimize_lbfgsb(fun=ff,jac=None,eps=step,**kw)
                    else: r=minimize_lbfgsb(fun=ff,jac=jac,finite_diff_rel_step=step,**kw)
                except Exception as e:
                    cnt[(jac,step,'exc',type(e).__name__)]+=1; continue
                d=abs(r.fun-ref.fun)/(1+abs(ref.fun))
                st[(jac,step,kind)]=max(st[(jac,step,kind)],d); cnt[(jac,step)]+=1
                if out[0]: cnt[(jac,step,'outside')]+=1
                if r.message=='START': cnt[(jac,step,'START')]+=1
for k in sorted(st,key=str): print(k,'%.2e'%st[k])
print({k:v for k,v in cnt.items() if len(k)>2})
