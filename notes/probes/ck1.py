import numpy as np, copy, itertools, collections, warnings
warnings.simplefilter('ignore')
from lbfgsb import minimize_lbfgsb, rosenbrock, rosenbrock_grad, styblinski_tang, styblinski_tang_grad
from enum1 import problem, BOX, x0_positions, MINLOC, hessians
def cases():
    for n in [2,3]:
        for hname in ['diag','rot2','rot4']:
            for kind in ['qp','quart','soft']:
                for boxes in [('free',)*n,('box',)*n,('lo','box','up')[:n]]:
                    for minloc in [('inside',)*n,('below','above','inside')[:n]]:
                        f,g,lb,ub,x0,H=problem(n,hname,kind,boxes,tuple('in' for _ in boxes),minloc)
                        yield (n,hname,kind,boxes,minloc),f,g,lb,ub,x0
    for n in [2,4]:
        for fn,(f,g) in {'rosen':(rosenbrock,rosenbrock_grad),'stang':(styblinski_tang,styblinski_tang_grad)}.items():
            for sv in range(3):
                x0=np.random.default_rng(sv).uniform(-2,2,n)
                yield (n,fn,sv),f,g,np.full(n,-3.0),np.full(n,3.0),x0
def main():
    st=collections.Counter(); worst=0; worst_pairs=0
    for name,f,g,lb,ub,x0 in cases():
        for m in [1,2,3,5]:
            kw=dict(fun=f,jac=g,bounds=np.array([lb,ub]).T,ftol=0,gtol=1e-9,maxcor=m,maxfun=10**5)
            K=10
            full=[minimize_lbfgsb(x0=x0,maxiter=k,**kw) for k in range(K+2)]
            for k in range(1,K+1):
                ck=full[k]
                if ck.nit<k: break
                nxt=full[k+1]
                if nxt.nit<k+1: break
                r0=minimize_lbfgsb(x0=ck.x,maxiter=k,checkpoint=copy.deepcopy(ck),**kw)
                r1=minimize_lbfgsb(x0=ck.x,maxiter=k+1,checkpoint=copy.deepcopy(ck),**kw)
                st['splits']+=1
                if r0.hess_inv.sk.shape!=ck.hess_inv.sk.shape: st['pairs_shape']+=1; print('shape',name,m,k,r0.hess_inv.sk.shape,ck.hess_inv.sk.shape); continue
                if ck.hess_inv.sk.size:
                    ep=max(np.abs(r0.hess_inv.sk-ck.hess_inv.sk).max()/(1+np.abs(ck.x).max()),np.abs(r0.hess_inv.yk-ck.hess_inv.yk).max()/(1+np.abs(ck.jac).max()))
                    worst_pairs=max(worst_pairs,ep)
                step=np.abs(nxt.x-ck.x).max()
                err=np.abs(r1.x-nxt.x).max()/(1+np.abs(nxt.x).max())
                rel=err/max(step,1e-300)
                if err>1e-9:
                    st['bad']+=1
                    if st['bad']<10: print('bad',name,m,k,'err',err,'step',step,'nfev',r1.nfev,nxt.nfev)
                worst=max(worst,err)
    print(dict(st),worst,worst_pairs)
if __name__=='__main__': main()
