import numpy as np, itertools, copy, collections
from lbfgsb import minimize_lbfgsb, rosenbrock, rosenbrock_grad
from lbfgsb.base import projgr
DOC={"CONVERGENCE: NORM_OF_PROJECTED_GRADIENT_<=_PGTOL","CONVERGENCE: REL_REDUCTION_OF_F_<=_FTOL","CONVERGENCE: F_<=_TARGET","STOP: TOTAL NO. of ITERATIONS REACHED LIMIT","STOP: TOTAL NO. of f AND g EVALUATIONS EXCEEDS LIMIT","STOP: USER CALLBACK","ABNORMAL_TERMINATION_IN_LNSRCH"}
def expf(x): return float(np.sum(x+np.exp(-10*x)))
def expg(x): return 1.0-10*np.exp(-10*x)
probs={'rosen':(rosenbrock,rosenbrock_grad,np.array([-1.2,1.0]),np.array([[-2,2],[-2,2.]])),
       'exp':(expf,expg,np.array([-50.0]),None),
       'exp2':(expf,expg,np.array([-5.0]),None)}
viol=collections.Counter(); tot=0; msgs=collections.Counter()
for pn,(f,g,x0,bnds) in probs.items():
  lb,ub=(bnds[:,0],bnds[:,1]) if bnds is not None else (np.full(x0.size,-np.inf),np.full(x0.size,np.inf))
  for maxiter,maxfun,maxls,ftol,gtol,ftarget,cbk in itertools.product([0,1,2,5],[1,2,3,5,9,100],[1,2,20],[0,1e-3],[1e-8,1e3],[None,-1e9,1.0],[None,0,2]):
    nf=[0];ng=[0];ncb=[0];cbret=[False]
    def ff(x): nf[0]+=1; return f(x)
    def gg(x): ng[0]+=1; return g(x)
    def cb(x,st):
        ncb[0]+=1
        r = (ncb[0]>=cbk) if cbk else False
        cbret[0]=cbret[0] or r
        return r
    res=minimize_lbfgsb(x0=x0,fun=ff,jac=gg,bounds=bnds,maxiter=maxiter,maxfun=maxfun,maxls=maxls,ftol=ftol,gtol=gtol,ftarget=ftarget,callback=cb if cbk is not None else None)
    tot+=1; msgs[res.message]+=1
    m=res.message
    if m not in DOC: viol['undoc:'+m]+=1
    if 'PROJECTED' in m and not projgr(res.x,res.jac,lb,ub)<=gtol: viol['pg']+=1
    if 'TARGET' in m and not res.fun<=ftarget: viol['target']+=1
    if 'ITERATIONS' in m and not res.nit>=maxiter: viol['iters']+=1
    if 'EVALUATIONS' in m and not res.nfev>=maxfun: viol['evals']+=1
    if 'CALLBACK' in m and not cbret[0]: viol['cb']+=1
    if res.success != (m!="ABNORMAL_TERMINATION_IN_LNSRCH"): viol['success:'+m]+=1
    if res.nit>maxiter: viol['nit>maxiter']+=1
    if res.nfev>max(maxfun,1)+1: viol['nfev>maxfun+1']+=1
    if res.nfev!=nf[0] or res.njev!=ng[0]: viol['counters']+=1
    if ng[0]>0:
        if res.fun!=f(res.x): viol['fun stale']+=1
        if not np.array_equal(res.jac,g(res.x)): viol['jac stale']+=1
print(tot,dict(viol)); print(dict(msgs))
