import numpy as np, itertools, time, sys, collections, warnings
warnings.simplefilter('ignore')
from enum1 import *
stats=collections.Counter()
n=2
for jac in [None,'2-point','3-point','cs']:
  for hname in ['diag']:
    for kind in ['qp']:
      for boxes in itertools.product(list(BOX),repeat=n):
        for x0pos in itertools.product(*[x0_positions(b) for b in boxes]):
          for minloc in itertools.product(MINLOC,repeat=n):
            f,g,lb,ub,x0,H=problem(n,hname,kind,boxes,x0pos,minloc)
            ref=minimize_lbfgsb(x0=x0,fun=f,jac=g,bounds=np.array([lb,ub]).T,ftol=1e-12,gtol=1e-7,maxiter=300,maxfun=3000,maxcor=5)
            res=minimize_lbfgsb(x0=x0,fun=f,jac=jac,bounds=np.array([lb,ub]).T,ftol=1e-12,gtol=1e-7,maxiter=300,maxfun=3000,maxcor=5)
            d=abs(res.fun-ref.fun)/max(1,abs(ref.fun))
            stats[(jac,'deg' in boxes,'bad' if d>1e-6 else 'ok',res.message[:12])]+=1
for k,v in sorted(stats.items(),key=str): print(k,v)
