import numpy as np, itertools, collections, warnings
warnings.simplefilter('ignore')
from lbfgsb.scalar_function import ScalarFunction, prepare_scalar_function
from scipy.optimize._numdiff import approx_derivative
PTS={'a':np.array([0.3,-1.2]),'b':np.array([1.1,0.4]),'c':np.array([0.0,2.0]),'a2':np.array([0.3,-1.2])}
ABS={'a':'a','b':'b','c':'c','a2':'a'}
def F(x): return float(np.sum(x**2)+x[0]*x[1]+np.sin(x[0]))
def Gf(x): return np.array([2*x[0]+x[1]+np.cos(x[0]),2*x[1]+x[0]])
OPS=[(k,p) for k in ('fun','grad','fg') for p in PTS]+[('scale',1.0),('scale',2.5),('mut',None)]
def run(hist,mode):
    log=[]
    def fun(x): log.append(('f',np.array(x,copy=True))); x[...]=99 if np.isrealobj(x) else x; return F(np.real(log[-1][1])) if np.isrealobj(log[-1][1]) else None
    def fun(x):
        xc=np.array(x,copy=True); log.append(('f',xc))
        if np.isrealobj(x): x[...]=123.0   # hostile: scribble on the argument
        return F(xc) if np.isrealobj(xc) else complex_F(xc)
    def complex_F(x): return np.sum(x**2)+x[0]*x[1]+np.sin(x[0])
    def jac(x):
        xc=np.array(x,copy=True); log.append(('g',xc)); x[...]=321.0
        return Gf(xc)
    sf=prepare_scalar_function(fun,PTS['a'].copy(),jac=jac if mode=='callable' else mode,bounds=(np.array([-3.,-3.]),np.array([3.,3.])),epsilon=1e-8)
    cell=[None,False,False]; scale=1.0; last=None; errs=[]
    for op,arg in hist:
        n0=len(log); nf0,ng0=sf.nfev,sf.ngev
        if op=='scale': sf.scaling_factor=arg; scale=arg; continue
        if op=='mut':
            if last is not None: last[...]=PTS['b']
            continue
        p=PTS[arg].copy(); last=p; ap=ABS[arg]
        if cell[0]!=ap: cell=[ap,False,False]
        exp_f=exp_g=0
        if op in('fun','fg') and not cell[1]: exp_f+=1; cell[1]=True
        if op in('grad','fg') and not cell[2]:
            if mode!='callable' and not cell[1]: exp_f+=1; cell[1]=True
            exp_g+=1; cell[2]=True
        out=getattr(sf,{'fun':'fun','grad':'grad','fg':'fun_and_grad'}[op])(p)
        new=log[n0:]
        # values
        fv=out if op=='fun' else (out[0] if op=='fg' else None)
        gv=out if op=='grad' else (out[1] if op=='fg' else None)
        if fv is not None and fv!=F(PTS[arg])*scale: errs.append(('fval',op,arg))
        if gv is not None:
            ref=Gf(PTS[arg])*scale
            ok=np.array_equal(gv,ref) if mode=='callable' else np.allclose(gv,ref,rtol=1e-5,atol=1e-5)
            if not ok: errs.append(('gval',op,arg,gv,ref))
        # counts
        nfc=sum(1 for k,_ in new if k=='f'); ngc=sum(1 for k,_ in new if k=='g')
        if sf.nfev-nf0!=nfc: errs.append(('nfev',op,arg))
        base=sum(1 for k,x in new if k=='f' and np.isrealobj(x) and np.array_equal(x,PTS[arg]))
        if base!=exp_f: errs.append(('f_at_point_calls',op,arg,base,exp_f))
        if mode=='callable':
            if ngc!=exp_g or sf.ngev-ng0!=exp_g: errs.append(('ngev',op,arg))
        else:
            if sf.ngev-ng0!=exp_g: errs.append(('ngev',op,arg))
    return errs
import sys
L=int(sys.argv[1])
for mode in ['callable','2-point','3-point','cs']:
    bad=0; tot=0
    for l in range(1,L+1):
        for hist in itertools.product(OPS,repeat=l):
            tot+=1
            e=run(hist,mode)
            if e:
                bad+=1
                if bad<4: print(mode,hist,e[:2])
    print(mode,tot,bad)
