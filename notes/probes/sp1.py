import numpy as np, itertools, collections, warnings
warnings.simplefilter('ignore')
from scipy.optimize import minimize
from lbfgsb import minimize_lbfgsb, rosenbrock, rosenbrock_grad
def trace_ours(f,g,x0,m,maxiter,**kw):
    ev=[]; its=[]
    def ff(x): ev.append(('f',x.copy())); return f(x)
    def cb(x,s): its.append((len(ev),x.copy()))
    res=minimize_lbfgsb(x0=x0,fun=ff,jac=g,maxcor=m,maxiter=maxiter,ftol=0,gtol=0,maxfun=10**6,callback=cb,**kw)
    return [p for _,p in ev],its,res
def trace_sp(f,g,x0,m,maxiter):
    ev=[]; its=[]
    def ff(x): ev.append(x.copy()); return f(x)
    res=minimize(ff,x0,jac=g,method='L-BFGS-B',callback=lambda x:its.append((len(ev),x.copy())),options=dict(maxcor=m,maxiter=maxiter,ftol=0,gtol=0,maxfun=10**6))
    return ev,its,res
def fam(n,kind,var):
    r=np.random.default_rng(100*n+var)
    A=r.standard_normal((n,n)); H=A@A.T/n+np.eye(n); b=r.standard_normal(n)*2
    if kind=='quart': return (lambda x:0.5*x@H@x-b@x+0.3*np.sum(x**4)),(lambda x:H@x-b+1.2*x**3)
    if kind=='soft': return (lambda x:0.5*x@H@x-b@x+np.sum(np.logaddexp(0,2*x))),(lambda x:H@x-b+2/(1+np.exp(-2*x)))
    return rosenbrock,rosenbrock_grad
def main():
    st=collections.Counter(); worst=0
    for kind in ['quart','soft','rosen']:
      for n in [2,3,5,8]:
        for var in range(3):
          f,g=fam(n,kind,var)
          for sv in range(4):
            x0=np.random.default_rng(sv).uniform(-2,2,n)
            for m in [1,2,3,5,8]:
                po,io,ro=trace_ours(f,g,x0,m,12); ps,is_,rs=trace_sp(f,g,x0,m,12)
                st['runs']+=1
                g0=g(x0); dev=None
                if np.linalg.norm(g0)<1: st['dev_short_g']+=1; continue
                # deviation a: first line search trial with alpha>=1
                first_end=io[0][0] if io else len(po)
                alphas=[np.linalg.norm(p-x0)/np.linalg.norm(g0) for p in po[1:first_end]]
                limit=len(po)
                if any(a>=1-1e-12 for a in alphas): st['dev_cap']+=1; limit=1
                # deviation b: accepted != last trial
                for (cnt,x) in io:
                    if not np.array_equal(po[cnt-1],x):
                        st['dev_lowest']+=1; limit=min(limit,cnt); break
                L=min(limit,len(po),len(ps))
                k=0
                while k<L:
                    scale=1+np.abs(po[k]).max()
                    err=np.abs(po[k]-ps[k]).max()/scale
                    if err>1e-6: break
                    worst=max(worst,err); k+=1
                if k<L:
                    # roundoff regime? 
                    step=np.abs(po[k]-po[k-1]).max()
                    st['mismatch']+=1
                    if st['mismatch']<8: print(kind,n,var,sv,m,'k',k,'L',L,'step',step,'err',err, 'f',f(po[k-1]))
                st['compared_pts']+=k
    print(dict(st),worst)
if __name__=='__main__': main()
