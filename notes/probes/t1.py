import time, numpy as np
from lbfgsb import minimize_lbfgsb
import lbfgsb
print(lbfgsb.__file__)
def mk(n, seed):
    r=np.random.default_rng(seed)
    Q=r.standard_normal((n,n)); Q,_=np.linalg.qr(Q)
    ev=np.logspace(0,2,n)
    H=Q@np.diag(ev)@Q.T; H=(H+H.T)/2
    b=r.standard_normal(n)*3
    f=lambda x: 0.5*x@H@x - b@x
    g=lambda x: H@x-b
    return f,g,H,b
def pg(x,g,lb,ub): return np.max(np.abs(np.clip(x-g,lb,ub)-x))
bad=0; tot=0; t0=time.time()
for seed in range(300):
    n=1+seed%6
    f,g,H,b=mk(n,seed)
    r=np.random.default_rng(1000+seed)
    lb=-np.abs(r.standard_normal(n)); ub=np.abs(r.standard_normal(n))
    x0=np.where(r.random(n)<0.4, lb, np.where(r.random(n)<0.5, ub, (lb+ub)/2))
    res=minimize_lbfgsb(x0=x0,fun=f,jac=g,bounds=np.array([lb,ub]).T,ftol=0,gtol=1e-6,maxiter=500,maxfun=5000,maxcor=1+seed%5)
    p=pg(res.x,g(res.x),lb,ub)
    tot+=1
    if p>1e-4:
        bad+=1
        if bad<6: print(seed,n,res.message,res.nit,res.nfev,p)
print(bad,tot,time.time()-t0)
