import time, numpy as np, sys
from lbfgsb import minimize_lbfgsb
def mk(n, seed):
    r=np.random.default_rng(seed)
    Q=r.standard_normal((n,n)); Q,_=np.linalg.qr(Q)
    ev=np.logspace(0,2,n)
    H=Q@np.diag(ev)@Q.T; H=(H+H.T)/2
    b=r.standard_normal(n)*3
    return H,b
out=0; tot=0; exc=0; up=0; t0=time.time()
for jacmode in ['exact','2-point']:
  out=tot=exc=up=0
  for seed in range(300):
    n=1+seed%6
    H,b=mk(n,seed)
    r=np.random.default_rng(1000+seed)
    lb=-np.abs(r.standard_normal(n)); ub=np.abs(r.standard_normal(n))
    x0=np.where(r.random(n)<0.4, lb, np.where(r.random(n)<0.5, ub, (lb+ub)/2))
    viol=[]; fs=[]
    def f(x):
        if (x<lb).any() or (x>ub).any(): viol.append(x.copy())
        return 0.5*x@H@x - b@x
    def g(x):
        if (x<lb).any() or (x>ub).any(): viol.append(x.copy())
        return H@x-b
    def cb(x, st):
        fs.append(st.fun)
        if (x<lb).any() or (x>ub).any(): viol.append(x.copy())
    try:
        res=minimize_lbfgsb(x0=x0,fun=f,jac=g if jacmode=='exact' else jacmode,bounds=np.array([lb,ub]).T,ftol=0,gtol=1e-6,maxiter=200,maxfun=5000,maxcor=1+seed%5,callback=cb)
    except Exception as e:
        exc+=1
        if exc<3: print('EXC',seed,repr(e)[:100])
        continue
    tot+=1
    if viol or (res.x<lb).any() or (res.x>ub).any(): out+=1
    if any(b_>a_ for a_,b_ in zip(fs,fs[1:])): up+=1
  print(jacmode,'outside',out,'of',tot,'exc',exc,'uphill',up,time.time()-t0)
