import numpy as np, warnings
warnings.simplefilter('ignore')
from sp1 import trace_ours, trace_sp
from lbfgsb import rosenbrock, rosenbrock_grad
import lbfgsb.main as M
orig=M.update_lbfgs_matrices
def w(xk,gk,X,G,maxcor,mats,is_force_update=False,eps=2.2e-16,is_check_factorization=False):
    l=len(X); out=orig(xk,gk,X,G,maxcor,mats,is_force_update,eps,is_check_factorization)
    s=xk-X[-2] if len(X)>l or len(X)==maxcor+1 else None
    print('  upd lenX',l,'->',len(X),'theta',out.theta)
    return out
M.update_lbfgs_matrices=w
x0=np.random.default_rng(1).uniform(-2,2,2)
po,io,ro=trace_ours(rosenbrock,rosenbrock_grad,x0,1,12)
ps,is_,rs=trace_sp(rosenbrock,rosenbrock_grad,x0,1,12)
print('x0',x0)
for k in range(14):
    print(k,po[k],ps[k],rosenbrock(po[k]),rosenbrock(ps[k]))
print([c for c,_ in io]); print([c for c,_ in is_])
