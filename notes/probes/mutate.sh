#!/bin/bash
# usage: mutate.sh name file 'old' 'new' -- then run tests + given probe command
name=$1; file=$2; old=$3; new=$4; shift 4
rm -rf /tmp/scratch/mut/$name; mkdir -p /tmp/scratch/mut/$name; cp -r /tmp/scratch/fixroot/lbfgsb /tmp/scratch/mut/$name/lbfgsb
/venv/bin/python - "$name" "$file" "$old" "$new" <<'PY'
import sys
name,file,old,new=sys.argv[1:5]
p=f'/tmp/scratch/mut/{name}/lbfgsb/{file}'
s=open(p).read()
assert s.count(old)>=1,(old,s.count(old))
s=s.replace(old,new,1)
open(p,'w').write(s)
PY
echo "== $name: tests:"; (cd /repo && OMP_NUM_THREADS=1 PYTHONPATH=/tmp/scratch/mut/$name /venv/bin/python -m pytest -q -p no:cacheprovider tests 2>&1 | grep -E "passed|failed" )
echo "== $name: probe:"; OMP_NUM_THREADS=1 PYTHONPATH=/tmp/scratch/mut/$name:/tmp/scratch "$@" 2>&1 | tail -4
