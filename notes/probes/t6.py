import numpy as np, copy
from lbfgsb import minimize_lbfgsb, rosenbrock, rosenbrock_grad
n=3
x0=np.array([-1.2,1.0,-0.5])
bounds=np.array([[-2,2]]*n)
kw=dict(fun=rosenbrock,jac=rosenbrock_grad,bounds=bounds,ftol=0,gtol=1e-9,maxcor=3,maxfun=10000)
states=[]
def cb(x,st):
    states.append((x,st,copy.deepcopy(st)))
res=minimize_lbfgsb(x0=x0,maxiter=6,callback=cb,**kw)
res_nocb=minimize_lbfgsb(x0=x0,maxiter=6,**kw)
print('cb alters run?', not np.array_equal(res.x,res_nocb.x), res.nfev,res_nocb.nfev)
for i,(x,st,snap) in enumerate(states):
    k=i+1
    rk=minimize_lbfgsb(x0=x0,maxiter=k,**kw)
    print(k,'nit',snap.nit,rk.nit,'x_eq_at_cb',np.array_equal(snap.x,rk.x),'x_after',np.array_equal(st.x,rk.x),'fun',snap.fun==rk.fun,'jac',np.array_equal(snap.jac,rk.jac),'nfev',snap.nfev==rk.nfev,snap.njev==rk.njev,'sk',np.array_equal(snap.hess_inv.sk,rk.hess_inv.sk),np.array_equal(snap.hess_inv.yk,rk.hess_inv.yk))
