import numpy as np, itertools, time, sys, collections, warnings
warnings.simplefilter('ignore')
from multiprocessing import Pool
from enum1 import BOX, x0_positions, MINLOC, pg
from lbfgsb import minimize_lbfgsb
def bigH(n,c):
    Q=np.eye(n)
    for i in range(n-1):
        R=np.eye(n); th=0.7+0.37*i; cth,sth=np.cos(th),np.sin(th)
        R[i,i]=cth;R[i+1,i+1]=cth;R[i,i+1]=-sth;R[i+1,i]=sth
        Q=Q@R
    H=Q@np.diag(np.logspace(0,c,n))@Q.T
    return (H+H.T)/2
def prob(n,c,kind,boxes,x0pos,minloc):
    reps=n//len(boxes)+1
    boxes=(boxes*reps)[:n]; x0pos=(x0pos*reps)[:n]; minloc=(minloc*reps)[:n]
    H=bigH(n,c)
    # stagger so that tiles are not identical numerically
    xs=np.array([MINLOC[m] for m in minloc])*(1+0.05*np.arange(n)/n)
    lb=np.array([BOX[b][0] for b in boxes]); ub=np.array([BOX[b][1] for b in boxes])
    x0=np.array([x0_positions(b)[p] for b,p in zip(boxes,x0pos)])
    if kind=='qp': f=lambda x:0.5*(x-xs)@H@(x-xs); g=lambda x:H@(x-xs)
    elif kind=='quart': f=lambda x:0.5*(x-xs)@H@(x-xs)+0.25*np.sum((x-xs)**4); g=lambda x:H@(x-xs)+(x-xs)**3
    else: f=lambda x:0.5*(x-xs)@H@(x-xs)+np.sum(np.logaddexp(0,x-xs)); g=lambda x:H@(x-xs)+1/(1+np.exp(-(x-xs)))
    return f,g,lb,ub,x0,H
def work(args):
    n,c,kind,boxes=args
    st=collections.Counter(); bad=[]
    for x0pos in itertools.product(*[x0_positions(b) for b in boxes]):
      for minloc in itertools.product(MINLOC,repeat=len(boxes)):
        for m in [1,4,10]:
            f,g,lb,ub,x0,H=prob(n,c,kind,boxes,x0pos,minloc)
            out=[0]
            def ff(x):
                if (x<lb).any() or (x>ub).any(): out[0]+=1
                return f(x)
            res=minimize_lbfgsb(x0=x0,fun=ff,jac=g,bounds=np.array([lb,ub]).T,ftol=0,gtol=1e-6,maxiter=500,maxfun=5000,maxcor=m)
            st['runs']+=1; st['nfev']+=res.nfev; st[('maxnit',n,c,m)]=max(st[('maxnit',n,c,m)],res.nit)
            p=pg(res.x,g(res.x),lb,ub)
            L=np.linalg.eigvalsh(H).max()+30
            tau=max(1e-4,30*np.sqrt(2.2e-16*max(abs(f(res.x)),abs(f(x0)),1)*L))
            if p>tau: st['stall']+=1; st[('stall',n,c,m)]+=1; bad.append((p,tau,res.message,res.nit,args,x0pos,minloc,m))
            if out[0]: st['outside']+=1
    return st,bad[:2]
if __name__=='__main__':
    t0=time.time(); tot=collections.Counter(); bads=[]
    tasks=[(n,c,kind,boxes) for n in [4,6,8,12] for c in [2,4] for kind in ['qp','quart','soft'] for boxes in itertools.product(list(BOX),repeat=2)]
    with Pool(16) as p:
        for st,bad in p.imap_unordered(work,tasks,chunksize=2):
            tot.update(st); bads+=bad
    print(dict(tot),round(time.time()-t0,1))
    for b in bads[:10]: print(b)
