import numpy as np, hashlib, warnings
warnings.simplefilter('ignore')
from lbfgsb import minimize_lbfgsb, rosenbrock, rosenbrock_grad
from enum1 import problem
h=hashlib.sha256()
for n in [3]:
    f,g,lb,ub,x0,H=problem(3,'rot4','soft',('box','lo','free'),('in','lb','in'),('above','inside','below'))
    for m in [1,5,10]:
        r=minimize_lbfgsb(x0=x0,fun=f,jac=g,bounds=np.array([lb,ub]).T,ftol=0,gtol=1e-9,maxiter=60,maxcor=m)
        h.update(r.x.tobytes()); h.update(np.float64(r.fun).tobytes()); h.update(r.hess_inv.sk.tobytes())
x0=np.linspace(-1.5,1.7,11)
r=minimize_lbfgsb(x0=x0,fun=rosenbrock,jac=rosenbrock_grad,maxiter=80,maxcor=7,ftol=0,gtol=1e-9)
h.update(r.x.tobytes()); h.update(r.hess_inv.yk.tobytes())
print(h.hexdigest()[:16], r.nit)
