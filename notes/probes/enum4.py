import numpy as np, itertools, time, sys, collections, warnings
warnings.simplefilter('ignore')
from multiprocessing import Pool
from enum1 import *
n=3
BT=['free','lo','box','deg','up']
def cases():
    for hname in hessians(n):
      for kind in ['qp','quart','soft']:
        for boxes in itertools.product(BT,repeat=n):
          yield (hname,kind,boxes)
def work(args):
    hname,kind,boxes=args
    st=collections.Counter(); bad=[]
    for x0pos in itertools.product(*[x0_positions(b) for b in boxes]):
      for minloc in itertools.product(MINLOC,repeat=n):
        for m in [2]:
            f,g,lb,ub,x0,H=problem(n,hname,kind,boxes,x0pos,minloc)
            out=[0]; fs=[]
            def ff(x):
                if (x<lb).any() or (x>ub).any(): out[0]+=1
                return f(x)
            def cb(x,s): fs.append(s.fun)
            try: res=minimize_lbfgsb(x0=x0,fun=ff,jac=g,bounds=np.array([lb,ub]).T,ftol=0,gtol=1e-6,maxiter=300,maxfun=3000,maxcor=m,callback=cb)
            except Exception as e:
                st['exc']+=1; bad.append(('exc',repr(e)[:50],args,x0pos,minloc)); continue
            st['runs']+=1
            p=pg(res.x,g(res.x),lb,ub)
            L=np.linalg.eigvalsh(H).max()+30
            tau=max(1e-4,30*np.sqrt(2.2e-16*max(abs(f(res.x)),abs(f(x0)),1)*L))
            if p>tau: st['stall']+=1; bad.append(('stall',p,res.message,args,x0pos,minloc))
            if out[0] or (res.x<lb).any() or (res.x>ub).any(): st['outside']+=1
            seq=[f(x0)]+fs+[res.fun]
            if any(b>a for a,b in zip(seq,seq[1:])): st['uphill']+=1
    return st,bad[:3]
if __name__=='__main__':
    t0=time.time(); tot=collections.Counter(); bads=[]
    with Pool(16) as p:
        for st,bad in p.imap_unordered(work,list(cases()),chunksize=4):
            tot.update(st); bads+=bad
    print(dict(tot),round(time.time()-t0,1))
    for b in bads[:15]: print(b)
