import numpy as np, itertools, collections, warnings
warnings.simplefilter('ignore')
from enum1 import *
n=2; rows=[]
for hname in hessians(n):
  for kind in ['qp','quart','soft']:
    for boxes in itertools.product(list(BOX),repeat=n):
      for x0pos in itertools.product(*[x0_positions(b) for b in boxes]):
        for minloc in itertools.product(MINLOC,repeat=n):
            f,g,lb,ub,x0,H=problem(n,hname,kind,boxes,x0pos,minloc)
            res=minimize_lbfgsb(x0=x0,fun=f,jac=g,bounds=np.array([lb,ub]).T,ftol=0,gtol=1e-7,maxiter=300,maxfun=3000,maxcor=3)
            p=pg(res.x,g(res.x),lb,ub)
            L=np.linalg.eigvalsh(H).max()+30
            tau=np.sqrt(2.2e-16*max(abs(f(res.x)),abs(f(x0)),1)*L)
            rows.append((p/ max(1e-7,tau), p, tau, res.message[:8], hname, kind))
rows.sort(key=lambda r:-r[0])
for r in rows[:8]: print(r)
print(sum(1 for r in rows if r[3]=='ABNORMAL'), len(rows))
