import numpy as np, itertools, collections, warnings
warnings.simplefilter('ignore')
import lbfgsb
from lbfgsb import minimize_lbfgsb, rosenbrock, rosenbrock_grad
# ---- C19 grid
V=[-4.3,-2.75,-1.1,-0.45,0.3,0.65,1.9,3.35,4.8]
def cd6(f,x,h=1e-2):
    g=np.zeros(x.size)
    for i in range(x.size):
        e=np.zeros(x.size); e[i]=h
        g[i]=(-f(x-3*e)+9*f(x-2*e)-45*f(x-e)+45*f(x+e)-9*f(x+2*e)+f(x+3*e))/(60*h)
    return g
names=['ackley','beale','griewank','quartic','rastrigin','rosenbrock','sphere','styblinski_tang']
for nm in names:
    f=getattr(lbfgsb,nm); g=getattr(lbfgsb,nm+'_grad'); worst=0; cnt=0
    for n in [1,2,3]:
        if nm in('beale','rosenbrock') and n<2: continue
        for pt in itertools.product(V,repeat=n):
            x=np.array(pt); cnt+=1
            ga=g(x); gn=cd6(f,x,1e-3)
            assert ga.shape==x.shape and np.isscalar(float(f(x)))
            err=np.abs(ga-gn).max()/(1+np.abs(gn).max())
            worst=max(worst,err)
    print(nm,cnt,worst)
# ---- nested
x0=np.array([-1.2,1.0]); bn=np.array([[-2,2.]]*2)
kw=dict(fun=rosenbrock,jac=rosenbrock_grad,bounds=bn,maxiter=5,maxcor=2)
solo=minimize_lbfgsb(x0=x0,**kw)
N=solo.nfev; bad=0
for i in range(1,N+1):
    c=[0]; inner=[]
    def f(x):
        c[0]+=1
        if c[0]==i: inner.append(minimize_lbfgsb(x0=x0,**kw))
        return rosenbrock(x)
    r=minimize_lbfgsb(x0=x0,**{**kw,'fun':f})
    for q in [r]+inner:
        if not(np.array_equal(q.x,solo.x) and q.fun==solo.fun and q.nfev==solo.nfev): bad+=1
print('nested',N,bad)
