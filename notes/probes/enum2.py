import numpy as np, itertools, time, sys, collections
from enum1 import *
def main(n):
    stats=collections.Counter(); t0=time.time(); bad=[]
    for jac in [None,'2-point','3-point','cs']:
     for hname in ['diag','rot2']:
      for kind in ['qp','quart']:
        for boxes in itertools.product(list(BOX),repeat=n):
          for x0pos in itertools.product(*[x0_positions(b) for b in boxes]):
            for minloc in itertools.product(MINLOC,repeat=n):
                m=5
                f,g,lb,ub,x0,H=problem(n,hname,kind,boxes,x0pos,minloc)
                out=[0]; nf=[0]
                def ff(x):
                    nf[0]+=1
                    xr=np.real(x)
                    if (xr<lb).any() or (xr>ub).any(): out[0]+=1
                    return f(x)
                ref=minimize_lbfgsb(x0=x0,fun=f,jac=g,bounds=np.array([lb,ub]).T,ftol=1e-12,gtol=1e-7,maxiter=300,maxfun=3000,maxcor=m)
                try:
                    res=minimize_lbfgsb(x0=x0,fun=ff,jac=jac,bounds=np.array([lb,ub]).T,ftol=1e-12,gtol=1e-7,maxiter=300,maxfun=3000,maxcor=m)
                except Exception as e:
                    stats['exc']+=1; bad.append(('exc',jac,repr(e)[:60],hname,kind,boxes,x0pos,minloc)); continue
                stats['runs']+=1
                if out[0]: stats['outside']+=1; bad.append(('out',jac,hname,kind,boxes,x0pos,minloc))
                if nf[0]!=res.nfev: stats['nfev']+=1
                d=abs(res.fun-ref.fun)/max(1,abs(ref.fun))
                if d>1e-6: stats['fdiff']+=1; bad.append(('fdiff',jac,d,res.message,hname,kind,boxes,x0pos,minloc))
    print(n,dict(stats),round(time.time()-t0,1))
    for b in bad[:12]: print('  ',b)
main(int(sys.argv[1]))
