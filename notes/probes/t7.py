import numpy as np, copy
from lbfgsb import minimize_lbfgsb, rosenbrock, rosenbrock_grad, get_gradient_projection_unit_scaling
def same(a,b,keys=('x','fun','jac','nfev','njev','nit','message','success','status')):
    out=[]
    for k in keys:
        va,vb=a[k],b[k]
        if isinstance(va,np.ndarray): ok=np.array_equal(va,vb)
        else: ok=(va==vb)
        if not ok: out.append(k)
    if not np.array_equal(a.hess_inv.sk,b.hess_inv.sk): out.append('sk')
    if not np.array_equal(a.hess_inv.yk,b.hess_inv.yk): out.append('yk')
    return out
ident=lambda x,f0,f0_old,grad,X,G:(f0,f0_old,grad,G)
bad=0
for n in [2,3,4]:
  for s in range(20):
    r=np.random.default_rng(s); x0=r.uniform(-2,2,n)
    for ftarget in [None, 1.0, 1e-3]:
      for ftol in [0,1e-5,1e-2]:
        kw=dict(x0=x0,fun=rosenbrock,jac=rosenbrock_grad,bounds=np.array([[-2,2]]*n),ftol=ftol,gtol=1e-7,maxcor=3,maxiter=40,ftarget=ftarget)
        a=minimize_lbfgsb(**kw); b=minimize_lbfgsb(update_fun_def=ident,**kw)
        d=same(a,b)
        if d:
            bad+=1
            if bad<5: print('identity diff',n,s,ftarget,ftol,d,a.message,b.message)
print('identity bad',bad)
# scaler
bad=0
for n in [2,3,4]:
  for s in range(20):
    r=np.random.default_rng(s); x0=r.uniform(-2,2,n)
    for sc in [1e-3,0.37,3.0,1e3]:
        kw=dict(x0=x0,bounds=np.array([[-2,2]]*n),ftol=1e-9,gtol=1e-7,maxcor=3,maxiter=40)
        calls=[]
        a=minimize_lbfgsb(fun=rosenbrock,jac=rosenbrock_grad,gradient_scaler=lambda x,g,lb,ub:(calls.append((x.copy(),g.copy())),sc)[1],**kw)
        b=minimize_lbfgsb(fun=lambda x:rosenbrock(x)*sc,jac=lambda x:rosenbrock_grad(x)*sc,**kw)
        d=same(a,b)
        if d or len(calls)!=1:
            bad+=1
            if bad<5: print('scaler diff',n,s,sc,d,len(calls))
print('scaler bad',bad)
