import numpy as np, copy
import lbfgsb.main as M, lbfgsb.bfgsmats as B
from t8 import run
orig=M.update_lbfgs_matrices
def wrapped(xk,gk,X,G,maxcor,mats,is_force_update,eps=2.2e-16,is_check_factorization=False):
    lx=len(X)
    acc=B.is_update_X_and_G(xk,gk,X[-1],G[-1],eps)
    out=orig(xk,gk,X,G,maxcor,mats,is_force_update,eps,is_check_factorization)
    print('   update: lenX before',lx,'accepted',acc,'lenX after',len(X),'mats.S shape',out.S.shape)
    return out
M.update_lbfgs_matrices=wrapped
origf=M.make_X_and_G_respect_strong_wolfe
def wf(X,G,eps,logger=None):
    a,b=origf(X,G,eps,logger)
    print('   filter: ',len(X),'->',len(a))
    return a,b
M.make_X_and_G_respect_strong_wolfe=wf
import sys
n,seed,ksw,wnew=[float(v) if '.' in v else int(v) for v in sys.argv[1:5]]
states,res,fun,jac,(lb,ub),w=run(n,seed,ksw,wnew)
