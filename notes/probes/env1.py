import numpy as np, itertools, collections, warnings, time, sys
warnings.simplefilter('ignore')
from lbfgsb import minimize_lbfgsb
from lbfgsb.base import projgr
H=np.array([[3.0,1.0],[1.0,2.0]]); xs=np.array([0.8,-0.4])
def q(x): return 0.5*(x-xs)@H@(x-xs)
def dq(x): return H@(x-xs)
lb=np.array([-1.0,-1.0]); ub=np.array([2.0,0.5]); x0=np.array([2.0,-1.0])
FL=[('f',+5.0),('f',+1e-3),('f','eq0'),('f',-1e-3),('f',-5.0)]
GL=[('g','flip'),('g','zero'),('g','x100')]
LIES=[None]+[(a,b) for a in FL+[None] for b in GL+[None] if (a,b)!=(None,None)]
def run(script,K,**kw):
    # script: dict index-> lie ; index over distinct points order
    table={}; order=[]; f0=[None]; outside=[0]; calls=[0]
    def ans(x):
        key=x.tobytes()
        if key not in table:
            i=len(order); order.append(key)
            f=q(x); g=dq(x)
            if f0[0] is None: f0[0]=f
            lie=script.get(i)
            if lie:
                a,b=lie
                if a: f = f0[0] if a[1]=='eq0' else f+a[1]
                if b: g = {'flip':-g,'zero':0*g,'x100':100*g}[b[1]]
            table[key]=(f,g)
        return table[key]
    def fun(x):
        calls[0]+=1
        if (x<lb).any() or (x>ub).any(): outside[0]+=1
        return ans(x)[0]
    def jac(x): return ans(x)[1].copy()
    its=[]
    res=minimize_lbfgsb(x0=x0,fun=fun,jac=jac,bounds=np.array([lb,ub]).T,callback=lambda x,s:its.append((x.copy(),s.fun)) and False,**kw)
    return res,its,table,outside[0],calls[0]
def check(res,its,table,outside,calls,kw):
    v=[]
    fs=[table[x0.tobytes()][0]]+[table[x.tobytes()][0] for x,_ in its]+[table[res.x.tobytes()][0] if res.x.tobytes() in table else None]
    if None in fs: v.append('x_not_evaluated')
    elif any(b>a for a,b in zip(fs,fs[1:])): v.append('uphill')
    if outside: v.append('outside')
    if res.nfev!=calls: v.append('nfev')
    if res.x.tobytes() in table and res.njev>0:
        if res.fun!=table[res.x.tobytes()][0]: v.append('fun_stale')
        if not np.array_equal(res.jac,table[res.x.tobytes()][1]): v.append('jac_stale')
    if res.nfev>max(kw['maxfun'],1)+1: v.append('nfev_budget')
    if res.success!=(res.message!='ABNORMAL_TERMINATION_IN_LNSRCH'): v.append('success')
    return v
K=int(sys.argv[1]); D=int(sys.argv[2])
st=collections.Counter(); outcomes=set(); t0=time.time()
for kw in [dict(maxiter=6,maxfun=30,maxls=20,ftol=0,gtol=1e-8,maxcor=3),dict(maxiter=6,maxfun=7,maxls=3,ftol=1e-3,gtol=1e-8,maxcor=2)]:
  for d in range(D+1):
    for idxs in itertools.combinations(range(K),d):
      for lies in itertools.product(LIES[1:],repeat=d):
        script=dict(zip(idxs,lies))
        try:
            out=run(script,K,**kw)
        except Exception as e:
            st['exc:'+type(e).__name__]+=1; continue
        st['runs']+=1
        for v in check(*out,kw): st[v]+=1
        outcomes.add((out[0].message,out[0].nit,out[0].nfev))
print(dict(st),'distinct outcomes',len(outcomes),round(time.time()-t0,1))
