import numpy as np, itertools, time, sys, collections
from lbfgsb import minimize_lbfgsb
INF=np.inf
# alphabets
def hessians(n):
    if n==1: return {'h1':np.array([[1.0]]),'h100':np.array([[100.0]])}
    out={}
    out['diag']=np.diag(np.logspace(0,2,n))
    for nm,c in [('rot2',2),('rot4',4)]:
        th=0.7
        Q=np.eye(n)
        for i in range(n-1):
            R=np.eye(n); cth,sth=np.cos(th+i),np.sin(th+i)
            R[i,i]=cth;R[i+1,i+1]=cth;R[i,i+1]=-sth;R[i+1,i]=sth
            Q=Q@R
        H=Q@np.diag(np.logspace(0,c,n))@Q.T
        out[nm]=(H+H.T)/2
    return out
BOX={'free':(-INF,INF),'lo':(-0.7,INF),'up':(-INF,1.3),'box':(-0.7,1.3),'deg':(0.3,0.3)}
def x0_positions(bt):
    l,u=BOX[bt]
    if bt=='free': return {'in':0.1}
    if bt=='lo': return {'lb':l,'in':0.4}
    if bt=='up': return {'ub':u,'in':0.4}
    if bt=='box': return {'lb':l,'in':0.4,'ub':u}
    return {'lb':l}
MINLOC={'below':-2.1,'inside':0.55,'above':2.9}  # location of unconstrained minimiser per coordinate
def problem(n,hname,kind,boxes,x0pos,minloc):
    H=hessians(n)[hname]
    xs=np.array([MINLOC[m] for m in minloc])
    lb=np.array([BOX[b][0] for b in boxes]); ub=np.array([BOX[b][1] for b in boxes])
    x0=np.array([x0_positions(b)[p] for b,p in zip(boxes,x0pos)])
    if kind=='qp':
        f=lambda x:0.5*(x-xs)@H@(x-xs); g=lambda x:H@(x-xs)
    elif kind=='quart':
        f=lambda x:0.5*(x-xs)@H@(x-xs)+0.25*np.sum((x-xs)**4); g=lambda x:H@(x-xs)+(x-xs)**3
    else:
        f=lambda x:0.5*(x-xs)@H@(x-xs)+np.sum(np.logaddexp(0,x-xs)); g=lambda x:H@(x-xs)+1/(1+np.exp(-(x-xs)))
    return f,g,lb,ub,x0,H
def pg(x,g,lb,ub): return np.max(np.abs(np.clip(x-g,lb,ub)-x))
def main(n,kinds,maxcors,boxtypes):
    stats=collections.Counter(); t0=time.time(); bad=[]
    for hname in hessians(n):
      for kind in kinds:
        for boxes in itertools.product(boxtypes,repeat=n):
          for x0pos in itertools.product(*[x0_positions(b) for b in boxes]):
            for minloc in itertools.product(MINLOC,repeat=n):
              for m in maxcors:
                f,g,lb,ub,x0,H=problem(n,hname,kind,boxes,x0pos,minloc)
                out=[0]; fs=[]
                def ff(x):
                    if (x<lb).any() or (x>ub).any(): out[0]+=1
                    return f(x)
                def cb(x,st): fs.append(st.fun)
                try:
                    res=minimize_lbfgsb(x0=x0,fun=ff,jac=g,bounds=np.array([lb,ub]).T,ftol=0,gtol=1e-7,maxiter=300,maxfun=3000,maxcor=m,callback=cb)
                except Exception as e:
                    stats['exc']+=1; bad.append(('exc',repr(e)[:60],hname,kind,boxes,x0pos,minloc,m)); continue
                stats['runs']+=1; stats[res.message]+=1
                p=pg(res.x,g(res.x),lb,ub)
                if p>1e-4: stats['stall']+=1; bad.append(('stall',p,res.message,res.nit,hname,kind,boxes,x0pos,minloc,m))
                if out[0] or (res.x<lb).any() or (res.x>ub).any(): stats['outside']+=1
                seq=[f(x0)]+fs+[res.fun]
                if any(b>a for a,b in zip(seq,seq[1:])): stats['uphill']+=1
    print(n,dict(stats),round(time.time()-t0,1))
    for b in bad[:12]: print('  ',b)
if __name__=='__main__':
    n=int(sys.argv[1])
    main(n,['qp','quart','soft'],[1,3,10] if n<3 else [3],list(BOX) if n<3 else ['free','lo','box','deg'])
