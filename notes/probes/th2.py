import numpy as np, threading, time, sys, os, warnings
warnings.simplefilter('ignore')
import lbfgsb
from lbfgsb import minimize_lbfgsb, rosenbrock, rosenbrock_grad
ROOT=os.path.dirname(lbfgsb.__file__)
class Sched:
    def __init__(s,bodies,switch_at):
        s.bodies=bodies; s.sem=[threading.Semaphore(0) for _ in bodies]; s.ctl=threading.Semaphore(0)
        s.done=[False,False]; s.res=[None,None]; s.err=[None,None]; s.count=[0,0]; s.switch_at=switch_at; s.switched=False
    def point(s,tid):
        s.count[tid]+=1
        if tid==0 and not s.switched and s.count[0]==s.switch_at:
            s.switched=True
            s.ctl.release(); s.sem[0].acquire()
    def tracer(s,tid):
        def glob(frame,event,arg):
            if frame.f_code.co_filename.startswith(ROOT): return loc
            return None
        def loc(frame,event,arg):
            if event=='line': s.point(tid)
            return loc
        return glob
    def _run(s,tid):
        s.sem[tid].acquire()
        if tid==0: sys.settrace(s.tracer(tid))
        try: s.res[tid]=s.bodies[tid]()
        except BaseException as e: s.err[tid]=e
        sys.settrace(None)
        s.done[tid]=True; s.ctl.release()
    def execute(s):
        ths=[threading.Thread(target=s._run,args=(i,)) for i in range(2)]
        for t in ths: t.start()
        s.sem[0].release(); s.ctl.acquire()     # A runs until switch point or completion
        s.sem[1].release(); s.ctl.acquire()     # B runs to completion
        if not s.done[0]:
            s.sem[0].release(); s.ctl.acquire() # A finishes
        for t in ths: t.join()
def body(x0):
    return lambda: minimize_lbfgsb(x0=x0,fun=rosenbrock,jac=rosenbrock_grad,bounds=np.array([[-2,2.]]*x0.size),maxiter=3,maxfun=8,maxcor=2)
xa=np.array([-1.2,1.0]); xb=np.array([0.5,-1.5,0.7])
solo=[body(xa)(),body(xb)()]
s=Sched([body(xa),body(xb)],10**9); t0=time.time(); s.execute(); N=s.count[0]; print('line events in A',N,'time',time.time()-t0, s.err)
bad=0; t0=time.time(); M=0
for p in range(1,N+1,1):
    s=Sched([body(xa),body(xb)],p); s.execute(); M+=1
    assert s.err==[None,None],s.err
    for r,so in zip(s.res,solo):
        if not(np.array_equal(r.x,so.x) and r.fun==so.fun and r.nfev==so.nfev): bad+=1
print('executions',M,'bad',bad,'time',time.time()-t0)
